#!/bin/bash
# bench.sh <patch.diff> <ID> [<ID>...]   (env: VERIF_RUNS, VERIF_SEED, BENCH_TIER, BENCH_DIR)
# Sensitivity bench: applies a patch to a scratch worktree of /repo (outside /repo and /verif),
# builds a scratch copy of the simulator against it and runs the named checks' quick tier there.
# Prints one line per check: "<ID> exit=<code> <first VIOLATION/KNOWN/HARNESS line>".
# Nothing in /repo or /verif is touched; the scratch tree is reverted afterwards.
set -u
PATCH="$(readlink -f "$1")"; shift
B=${BENCH_DIR:-/tmp/bench}
export CARGO_NET_OFFLINE=true
mkdir -p $B/out
if [ ! -d $B/repo ]; then git -C /repo worktree add --detach $B/repo HEAD >/dev/null 2>&1 || exit 2; fi
git -C $B/repo checkout -q -- . ; git -C $B/repo checkout -q --detach "$(git -C /repo rev-parse HEAD)"
rsync -a --delete --exclude target /verif/sim/ $B/sim/
sed -i "s#path = \"/repo\"#path = \"$B/repo\"#" $B/sim/Cargo.toml
cp /verif/known_findings.txt $B/out/
if [ "$PATCH" != "/dev/null" ]; then
  git -C $B/repo apply "$PATCH" || { echo "BENCH-ERROR patch does not apply"; exit 2; }
fi
( cd $B/sim && cargo build --release --offline >$B/build.log 2>&1 ) || { echo "BENCH-ERROR build failed"; tail -5 $B/build.log; git -C $B/repo checkout -q -- .; exit 2; }
ulimit -v 8388608 2>/dev/null
for ID in "$@"; do
  rm -rf $B/out/replays $B/out/evidence
  OUT=$(VERIF_ROOT=$B/out $B/sim/target/release/verif-sim run $ID --tier ${BENCH_TIER:-quick} 2>&1); code=$?
  first=$(echo "$OUT" | grep -E "^(VIOLATION|HARNESS-ERROR)" | head -1 | sed "s#$B/out/replays/##")
  key=$(echo "$OUT" | grep -E "^  key=" | head -1 | cut -c1-260)
  echo "$ID exit=$code $first $key"
done
git -C $B/repo checkout -q -- .
