#!/usr/bin/env python3
"""Writes MANIFEST.json from the table below (kept next to the checks so the two cannot drift)."""
import json, subprocess

CLAIMED = {
 "C03": dict(cat="exploration", ref="DESIGN.md section 5 C03",
   text="Seeded search over simulated operator sessions (hostile lines, replies, interrupts at instruction/slice/wait-state instants, snapshot holders, SimDisk loads, Ctrl-C delivered twice before the next slice, seeded quantum schedules) against the real Runtime; every API call runs under catch_unwind, a fuel budget and a bounded-slice / bounded-return-to-prompt invariant, a worker-process boundary catches aborts and a watchdog catches hangs without fuel ticks. A clean batch is evidence over the sampled sessions, not proof.",
   note="Trusted: the terminal actor (stub of term::main_loop) respects the documented calling protocol; fuel ticks (hook H3) cover the hand-written loops; debug assertions and overflow checks are on as in the repository's test profile.",
   tech="deterministic simulation: seeded hostile sessions with interrupt/snapshot/overlong-input fault injection, crash+hang containment, canary"),
 "C13": dict(cat="fault_enumeration", ref="DESIGN.md section 5 C13",
   text="For each seeded program the interrupt instant is enumerated over EVERY VM instruction of the run, every INPUT wait, every after-reply instant and every instant between two lines of a LIST statement (interrupt, in a quarter of the programs delivered twice, + optional inspection line (PRINT, SAVE, LIST, or a 1025-character line that is refused) + CONT), STOP and END are inserted at every top-level statement boundary, seven quantum schedules are compared event-for-event, and 1 in 400 evaluations is a GOSUB recursion 65 504+ frames deep with an INPUT at the bottom; oracle is the uninterrupted run of the same program. Complete over crash points per sampled program, sampled over programs.",
   note="Trusted: the normaliser that removes the ?BREAK report, the line break it forces and the prompts (terminal model + probe hook H4 to tell forced from printed line breaks). TRON, interrupts landing in the direct RUN line, and column-sensitive items after a mid-line break are not judged.",
   tech="deterministic simulation: exhaustive interrupt-point / STOP-END-placement enumeration per seeded program, self-differential against the uninterrupted run, seeded quantum schedules"),
 "C04": dict(cat="exploration", ref="DESIGN.md section 5 C04",
   text="Seeded search over edit histories (insert/replace/delete/absent-delete, DELETE ranges, RENUM, NEW, SimDisk load, a host-initiated load arriving k instructions into a run, get_listing() snapshots handed back with set_listing, program lines that DELETE / NEW / LOAD / RUN \"file\" when executed, harmless direct statements) around runs stopped by an injected interrupt, STOP, END or an error inside loops and subroutines, ending in RUN / RUN n / CONT / RETURN / NEXT / a direct call of a user function; the oracle is a fresh twin Runtime fed get_listing() text with entropy aligned. Needs no semantic model, so it cannot raise model-induced alarms; a clean batch is evidence over the sampled histories.",
   note="Trusted: token-stream normaliser (prompt and forced line breaks removed). CONT/RETURN/NEXT without an edit since the last stop are legitimate and not judged; cases whose listing is not a fixed point (C05) are discarded.",
   tech="deterministic simulation: seeded edit histories with interrupt-stopped runs, fresh-twin differential oracle"),
 "C12": dict(cat="exploration", ref="DESIGN.md section 5 C12",
   text="Seeded search over session prefixes (programs run to completion / planted error / STOP / Ctrl-C at a seeded instruction, direct statements leaving variables, arrays, DEFtype, DATA position, FOR/GOSUB frames, pending INPUT, RND draws) followed by RUN of another program, RUN again, CLEAR + probe lines, or NEW + probe lines + LIST (25% with a get_listing() snapshot held across the reset); 5%: a program restarting itself with RUN from inside GOSUB / FOR / WHILE, compared from the restart on with RUN on a fresh runtime plus stray RETURN / NEXT / CONT probes; 2%: a program executing NEW itself inside GOSUB / FOR, then probe lines compared with a runtime just started; every line is compared with a fresh twin Runtime, entropy aligned.",
   note="Trusted: token-stream normaliser; TRON is switched off at the end of the prefix because the manual lets tracing persist across RUN.",
   tech="deterministic simulation: seeded session prefixes with injected interrupts and failing statements, fresh-twin differential oracle"),
 "C15": dict(cat="exploration", ref="DESIGN.md section 5 C15",
   text="Seeded edit / LIST / DELETE / NEW / LOAD (sorted and hostile files: unsorted, repeated numbers, bare numbers, a direct statement that must refuse the whole load) / TAB-lookup histories over a small universe of line numbers, with Ctrl-C after the j-th listed line (also for a LIST statement stored in the program, followed by a direct LIST and CONT), LIST typed with the cursor mid-line, a host-initiated set_listing() right after the first listed line of a LIST (the listing must stop and the store become the loaded file), and get_listing() snapshots held across edits; an ordered-map model is compared with the real listing after every operation and with every LIST transcript; held snapshots must keep rendering what they rendered when taken.",
   note="Trusted: the 40-line map model. Whole-program ranges written explicitly for DELETE (0-65529 and equivalents) are not judged.",
   tech="deterministic simulation: seeded histories against an ordered-map reference model, LIST interrupted mid-way, host load mid-LIST, live-snapshot fault"),
 "C01": dict(cat="exploration", ref="DESIGN.md section 5 C01, section 4.1, appendix B",
   text="Seeded search over generated programs of the well-defined fragment and typed sessions (direct statements, RUN / RUN n / GOTO n, CONT after STOP/END, replies synthesised per INPUT) (also with tracing switched on at the prompt and left on over several RUN / RUN n / GOTO n / GOSUB n commands) executed on the real VM under seven seeded quantum distributions; programs include NEXT lists, code-less landing pads behind the final END, END inside IF branches, ON.. out of range as last statement, self-restart by RUN, and (3%) programs whose last line is 65529; 0.4% of the evaluations run C13's interrupt + CONT enumeration over such a program; the full screen transcript of every typed line (output, prompts, REDO, trace tokens, error code and line, READY) is compared with RefBASIC, an independent reference interpreter over the generator's own AST. Evidence over the sampled programs, not proof; defects outside the generated fragment are invisible.",
   note="Trusted: RefBASIC (rules of DESIGN.md appendix B, taken from the manual and the property statements) and the renderer; grey zones set the model's grey flag and discard the case (counted in the evidence).",
   tech="deterministic simulation: seeded programs and sessions under seeded slice schedules, refinement check against an executable reference model (RefBASIC)"),
 "C06": dict(cat="exploration", ref="DESIGN.md section 5 C06",
   text="Seeded direct-mode sessions of store operations (typed LET incl. failing ones, DIM / ERASE / implicit dimensioning with boundary subscripts, DEFtype on ranges, SWAP same-typed and mixed, FOR, INPUT, MID$ assignment, CLEAR, RUN) over a universe of colliding names (incl. names that begin and end with an array's name); after every operation a probe line reads back the touched names and a sample of others and is compared with RefBASIC's typed map; 6%: a mixed-type SWAP or another failing store inside a stored program, RUN, probe, CONT, probe (a rejected SWAP leaves both operands unchanged for good).",
   note="Trusted: RefBASIC's store model. Within one evaluation a base name is spelled either always with or always without a type suffix (whether A and A! are one variable is not settled by the manual). Interrupts inside SWAP / MID$= are enumerated by C13, pool exhaustion by C18.",
   tech="deterministic simulation: seeded operation sequences with failing statements against a typed map reference model, read back after every step"),
 "C09": dict(cat="exploration", ref="DESIGN.md section 5 C09",
   text="Seeded programs with DATA lines anywhere (also in never-executed IF branches), READ lists of every type, RESTORE / RESTORE n to arbitrary lines, and sessions mixing RUN, direct-mode READ/RESTORE, edits that insert/change/delete DATA lines, edits that leave the DATA alone (the position must survive them), NEW + the program typed again + READ without RUN, DATA on line 65529 with RESTORE 65529 typed at the prompt, CLEAR, STOP + READ + CONT, valid RENUM commands, DATA typed as a direct statement; members: READs followed by a run that dies of pool exhaustion and a direct READ; C13's interrupt + CONT enumeration over READ-heavy programs; every typed line is compared with RefBASIC's data-pointer model.",
   note="Trusted: RefBASIC. The DATA position right after an edit is a grey zone (READ there discards the case).",
   tech="deterministic simulation: seeded programs and edit/run histories against RefBASIC's data-pointer model"),
 "C10": dict(cat="exploration", ref="DESIGN.md section 5 C10",
   text="Seeded programs over-sampling DEF FN (1-3 typed parameters named like program variables, bodies reading globals and calling earlier functions, calls inside PRINT lists, subscripts, FOR headers, IF predicates, ON selectors, arguments; planted wrong-arity and undefined calls) with sessions calling the functions from direct mode after globals changed, DEF in direct mode, CLEAR, DELETE of a line (functions are gone until their DEF executes again), CONT; functions whose names differ only in the type sigil and functions defined again mid-program with calls before and after on one line; judged by RefBASIC. DEF in direct mode is also typed behind other statements and inside IF..THEN / ELSE. 2% of the evaluations are runaway recursion programs that must end in ?OUT OF MEMORY with canary, intact listing and a fresh program running normally afterwards; 3% are refused calls (wrong argument count, undefined function) inside a FOR loop and/or a subroutine: the documented report, then NEXT / RETURN typed by hand must behave as after a STOP at the same place (twin run).",
   note="Trusted: RefBASIC (parameters in a local frame). Line attribution of errors raised inside function bodies, calls after edits and calls under TRON are grey zones.",
   tech="deterministic simulation: seeded programs and sessions against RefBASIC, pool-exhaustion fault (runaway recursion) with canary"),
 "C11": dict(cat="exploration", ref="DESIGN.md section 5 C11, section 4.3",
   text="Seeded programs and direct lines over-sampling PRINT lists (strings incl. multi-byte and embedded line feeds, numbers of each type, TAB around column/zone boundaries and +-255, SPC, POS, separators, trailing separators) interleaved with TRON, INPUT, planted errors and STOP with the cursor mid-line, LIST between prints (also of an empty range), keyboard polls between items, CONT; members: a program chaining with RUN \"file\" while the cursor is mid-line (twin), C13's interrupt + CONT enumeration over PRINT-heavy programs with the world invariant that a ?BREAK report arrives at column 0. RefBASIC lays out from the simulated terminal's true cursor column; transcripts must be identical. The column clause is decided by simulation (two parties: terminal cursor vs the VM's belief); number formatting only for the generated values.",
   note="Trusted: the terminal model's cursor rule and RefBASIC's PRINT rules. The for-all-floats formatting clause is a pure function and is not claimed.",
   tech="deterministic simulation: terminal-cursor model vs VM column bookkeeping across Print/Input/Errors/List/trace/BREAK events, RefBASIC layout oracle"),
 "C17": dict(cat="exploration", ref="DESIGN.md section 5 C17",
   text="Seeded programs over-sampling INPUT (prompt / no prompt / leading comma, 1-5 targets of every type, array targets subscripted by earlier targets, in loops, subroutines, IF branches and direct mode) answered by synthesised replies of clearly valid, clearly invalid and structurally wrong classes (incl. over-long ones, hex digits D and E, non-ASCII text, an odd number of quotes) with up to two bad replies before an accepted one; targets whose type comes from DEFtype; 0.5%: C13's interrupt + CONT enumeration in every protocol state (with a direct INPUT or other inspection line before CONT, CONT typed behind a PRINT, Ctrl-C delivered twice); the request / REDO / request protocol, the caps flag and everything printed afterwards are compared with RefBASIC's reply model.",
   note="Trusted: RefBASIC's reply grammar; grey-zone spellings are never generated. Interrupts in each protocol state are enumerated by C13.",
   tech="deterministic simulation: request/retry protocol between VM and simulated terminal with hostile replies, reference reply model"),
 "C20": dict(cat="exploration", ref="DESIGN.md section 5 C20",
   text="Seeded twin comparison: (a) one generated program rendered under two layouts (monotone renumbering with seeded gaps, inserted REM / ':'-only lines, multi-statement lines split into consecutive lines, unreachable lines appended) is run on two real runtimes under different slice schedules and the transcripts and final variables must agree once reported line numbers are mapped back to the originating statement; (b) a direct statement list typed into a fresh runtime is compared with the same list typed with small / large / compile-error-carrying resident programs after other direct lines (failed, looping, syntactically wrong), and with the one-line program `10 <list>` + RUN; 8% of the resident-program comparisons end with a reference to line 65529 / 65528 (absolute oracle: one ?UNDEFINED LINE report); in 30% of the resident-program comparisons the list is interrupted after k instructions on both runtimes and the break reports must be the same text.",
   note="Trusted: the layout transformations preserve meaning (targets are AST indices, re-rendered); TRON excluded; DATA lines never moved; direct lists carry no line references and no READ.",
   tech="deterministic simulation: seeded layout configurations and resident-program / direct-line histories, twin-runtime differential oracle under different slice schedules"),
 "C14": dict(cat="exploration", ref="DESIGN.md section 5 C14",
   text="RENUM as a transaction on the shared program store: a generated link-clean program (every referencing statement form incl. ON...GOSUB and, on unreachable lines, RUN n and LIST / DELETE in all range forms and bare; decoy numbers in PRINT, DATA, strings, remarks; non-ASCII text and octal / hex / exponent / typed numeric literals in front of references; line 0; lines up to 65529) is typed into the real runtime, a get_listing() snapshot is optionally held across, RENUM is typed in one of its eight argument forms with valid, overflowing, reordering, step-0 and out-of-range operands (also as a program statement, on a program with a dangling reference, as the second RENUM in a row after a valid partial one, and on programs that do not compile: unparsable line, dangling reference that must not become live). Verdict is the property's disjunction: (error reported and listing byte-identical) or (no error and listing equals the model renumbering of the generator's AST); on success the original program (fresh twin) and the renumbered one are run, entropy aligned, and transcripts and final variables must agree modulo the line map; a held snapshot must keep rendering the old text.",
   note="Trusted: the AST renderer and the 25-line model renumbering. A refused triple that the manual makes valid is counted, not reported (the property allows failing).",
   tech="deterministic simulation: seeded RENUM transactions with failing argument triples and live-snapshot fault, model renumbering + twin-runtime behavioural equivalence"),
 "C19": dict(cat="exploration", ref="DESIGN.md section 5 C19",
   text="Seeded sessions: a clean generated program is typed, optionally run to its end or to an injected Ctrl-C (leaving FOR/GOSUB frames, a CONT point and defined user functions), then damaged by typed edits (dangling reference in each of nine referencing forms, stray WHILE / WEND, token-level syntax damage, on new lines or in front of existing lines, with ASCII and multi-byte statements before the fault), then with tracing on one of 13 doors into the program is tried (RUN, RUN n, GOTO n, GOSUB n, ON..GOTO, ON..GOSUB, IF..THEN n, FOR..GOSUB..NEXT, CONT, RETURN, NEXT, a direct call of a user function, load-and-run from the SimDisk), optionally typed behind `PRINT \"X\";:` and optionally followed by CONT; 6% of the programs damage themselves (their first line DELETEs the target of a later GOTO). Invariants: every diagnostic names a listed line and a character range inside its listed text, UNDEFINED LINE ranges spell exactly a missing number, WHILE/WEND ranges the keyword, LIST underlines exactly the reported ranges, every planted fault is reported; through the door no trace token, output, prompt or variable change; harmless direct statements still work, also after a direct line that was itself refused at compile time; a failing direct statement typed under TRON is reported once without a line number and traces nothing, an interrupted direct loop breaks without a line number.",
   note="Trusted: the damage placement (faults only added, never by modifying existing statements, so the planted set is the expected set). An empty range at the end of a line counts as inside it. The value of a direct FN call is not judged here.",
   tech="deterministic simulation: seeded edit/run/stop histories with injected interrupts, every door into a damaged program under seeded slice schedules, diagnostic-range invariants against the listing snapshot"),
 "C18": dict(cat="exploration", ref="DESIGN.md section 5 C18",
   text="Seeded long simulated runs. No-residue clause: loop bodies composed of 16 statement families (PRINT lists, LET with temporaries, SWAP, MID$=, READ+RESTORE, IF/ELSE, ON..GOSUB and ON..GOTO with the selector in and out of range, completed inner FOR / WHILE, GOSUB incl. RETURN out of an open FOR, nested FN calls, INPUT with REDO cycles, DIM+ERASE, forward GOTO, INKEY$) wrapped as FOR / GOTO-counter / WHILE loop, as a subroutine called in a loop (300 000 iterations) or typed as a 70 000-iteration direct loop; a program restarting itself with RUN from inside GOSUB/FOR 70 000 times; one direct line (incl. refused DATA lines) typed 70 000 times; three arrays of 30 001 elements filled and zeroed in turn through several zero-valued expressions per type. Limits clause: GOSUB recursion, FN recursion, re-entered FOR, more than 65 535 variables, DATA values and opcodes must end in ?OUT OF MEMORY without crash or hang, then the canary line, an intact listing, NEW or CLEAR and a small program equal to a fresh runtime; a full variable pool must accept zeroing and refilling. Verdicts are behavioural (the interpreter's own OUT OF MEMORY); the probe hook only decides whether a loop that shows no growth between two STOPs 1000 iterations apart may end early (10% run to the end regardless).",
   note="Trusted: the probe hook's sizes for the early-exit decision. Loop bodies failing with another error are discarded. Growth too slow to exhaust a pool within 300 000 iterations is counted, not reported.",
   tech="deterministic simulation: long simulated runs with pool-exhaustion faults and recovery check (canary, listing, fresh-twin comparison after NEW/CLEAR), probe-guided early exit"),
}

NOT_APPLICABLE = {
 "C02": "pure function of one expression: no schedule, clock, fault, history or second party enters; deterministic simulation has nothing to decide (DESIGN.md section 6)",
 "C05": "pure function of one source line (lex -> list -> lex); the only I/O on the SAVE/LOAD path is in the binary-private terminal front end, which is a stub here (DESIGN.md section 6)",
 "C07": "string functions are pure functions of their arguments (DESIGN.md section 6)",
 "C08": "Integer arithmetic is a pure function of its operands; its never-crashes clause is exercised as a crash verdict under C03 (DESIGN.md section 6)",
 "C16": "relation between two lexings of one line; stateless (DESIGN.md section 6)",
}

def main():
    commits = subprocess.run(["git","-C","/repo","log","--format=%h %s"],capture_output=True,text=True).stdout.splitlines()
    hooks = [c.split()[0] for c in commits if c.split(" ",1)[1].startswith("verif hook")]
    hooks.reverse()
    checks = []
    for pid in sorted(CLAIMED):
        c = CLAIMED[pid]
        checks.append({
            "property_id": pid,
            "quick_cmd": f"./check {pid} --tier quick",
            "thorough_cmd": f"./check {pid} --tier thorough",
            "evidence_file": f"evidence/{pid}.json",
            "replay_cmd_template": f"./check {pid} --replay {{path}}",
            "engine": "verif-sim",
            "level_claimed": {"category": c["cat"], "text": c["text"], "design_ref": c["ref"]},
            "level_note": c["note"],
            "technique": c["tech"],
        })
    props = [json.loads(l)["id"] for l in open("/verif/properties.jsonl")]
    na = []
    for pid in props:
        if pid in CLAIMED: continue
        reason = NOT_APPLICABLE.get(pid, "no check built for it: no claim is made")
        na.append({"property_id": pid, "reason": reason})
    m = {
        "version": 1,
        "setup_cmd": "./check --build-only",
        "hooks": {
            "guard": "cargo feature `verif` of basic-lang (off by default)",
            "enable": "sim/Cargo.toml depends on basic-lang by path (/repo) with features = [\"verif\"]; ./check rebuilds from /repo's working tree on every invocation",
            "baseline_off_cmd": "cd /repo && cargo test --workspace --no-fail-fast --offline",
            "source_commits": hooks,
            "add_only": True,
        },
        "engines": [{
            "name": "verif-sim", "path": "sim", "serves_properties": sorted(CLAIMED),
            "kind_free_text": "deterministic simulator: one PRNG (VERIF_SEED) decides operator actions, quantum of every execute() slice, interrupt instants, replies, snapshot lifetimes, entropy and clock; the real basic::mach::Runtime runs inside a simulated terminal/operator/snapshot-holder world; oracles are reference models (RefBASIC, ordered map, terminal model) and fresh-twin runtimes; failures are minimised and written as replay files",
        }],
        "checks": checks,
        "not_applicable": na,
        "notes": "Exit codes of ./check: 0 property held on everything explored (KNOWN-FINDING lines may be printed), 1 VIOLATION, 2 harness error. VERIF_SEED (default 1) and VERIF_TIER are honoured. known_findings.txt lists recorded findings and fixes.",
    }
    json.dump(m, open("/verif/MANIFEST.json","w"), indent=1)
    print("MANIFEST.json written:", len(checks), "checks,", len(na), "not applicable")

main()
