#!/usr/bin/env python3-vt
"""Validate MANIFEST.json and every evidence file against the schemas in /root/.vp."""
import json, jsonschema, glob, sys
ok = True
m = json.load(open('/verif/MANIFEST.json')); s = json.load(open('/root/.vp/MANIFEST.schema.json'))
try:
    jsonschema.validate(m, s); print('MANIFEST.json ok')
except Exception as e:
    ok = False; print('MANIFEST.json INVALID:', str(e)[:500])
s = json.load(open('/root/.vp/EVIDENCE.schema.json'))
for f in sorted(glob.glob('/verif/evidence/*.json')):
    try:
        jsonschema.validate(json.load(open(f)), s); print(f, 'ok')
    except Exception as e:
        ok = False; print(f, 'INVALID:', str(e)[:500])
sys.exit(0 if ok else 1)
