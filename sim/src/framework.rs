//! Property/Case interface, the seeded sweep over runs (worker processes with
//! crash and hang containment), minimisation, replay files, known findings and
//! evidence.

use crate::json::{obj, Json};
use crate::prng::Rng;
use crate::world::Stats;
use std::collections::{BTreeMap, BTreeSet};
use std::io::{BufRead, BufReader, Write};
use std::process::{Command, Stdio};
use std::sync::mpsc;
use std::time::{Duration, Instant};

#[derive(Clone, Copy, Debug, PartialEq, Eq)]
pub enum Tier {
    Quick,
    Thorough,
}

impl Tier {
    pub fn name(&self) -> &'static str {
        match self {
            Tier::Quick => "quick",
            Tier::Thorough => "thorough",
        }
    }
    pub fn parse(s: &str) -> Option<Tier> {
        match s {
            "quick" => Some(Tier::Quick),
            "thorough" => Some(Tier::Thorough),
            _ => None,
        }
    }
}

#[derive(Clone, Debug)]
pub struct Violation {
    /// stable class of the violation (oracle + first differing thing); used for
    /// minimisation ("same violation") and for matching known findings
    pub key: String,
    pub detail: String,
}

#[derive(Clone, Debug, Default)]
pub struct Verdict {
    pub violation: Option<Violation>,
    /// the case met something the oracle does not judge
    pub discarded: Option<String>,
    /// executed program instructions and fired at least one targeted fault / interesting feature
    pub nontrivial: bool,
    pub fingerprint: u64,
    pub stats: Stats,
    pub instr: u64,
    pub sim_us: u64,
    /// number of simulated executions inside this case (twins, enumerated interrupt points ...)
    pub executions: u64,
}

impl Verdict {
    pub fn violation(key: &str, detail: String) -> Verdict {
        Verdict {
            violation: Some(Violation {
                key: key.to_string(),
                detail,
            }),
            ..Default::default()
        }
    }
}

pub trait Case {
    fn execute(&self) -> Verdict;
    /// Deterministic list of strictly smaller candidates.
    fn shrink(&self) -> Vec<Box<dyn Case>>;
    /// The explicit scenario: every line, reply, quantum, interrupt instant.
    fn describe(&self) -> Json;
}

pub struct Budget {
    pub runs: u64,
    /// per-run watchdog (seconds without a new run starting)
    pub watchdog_s: u64,
}

pub trait Property: Sync {
    fn id(&self) -> &'static str;
    fn generate(&self, rng: &mut Rng, tier: Tier) -> Box<dyn Case>;
    fn budget(&self, tier: Tier) -> Budget;
    fn level(&self) -> &'static str {
        "exploration"
    }
    fn rule(&self) -> &'static str;
    fn assumptions(&self) -> Vec<&'static str>;
    /// counters that must be non-zero over a whole tier (dead probe = harness error)
    fn required_probes(&self) -> Vec<&'static str> {
        vec![]
    }
}

pub fn case_for(prop: &dyn Property, seed: u64, tier: Tier, run: u64) -> Box<dyn Case> {
    let mut rng = Rng::for_run(seed, prop.id(), run);
    prop.generate(&mut rng, tier)
}

/// Greedy minimisation: repeatedly take the first candidate that still fails with the same key.
pub fn minimise(case: Box<dyn Case>, key: &str, max_exec: usize) -> (Box<dyn Case>, Vec<usize>, usize) {
    let mut cur = case;
    let mut path = vec![];
    let mut execs = 0;
    let t0 = Instant::now();
    'outer: loop {
        let cands = cur.shrink();
        for (i, c) in cands.into_iter().enumerate() {
            // bounded in executions and in wall time (long simulated runs); the parent's watchdog is
            // told that this worker is alive
            if execs >= max_exec || t0.elapsed() > Duration::from_secs(90) {
                break 'outer;
            }
            {
                let mut o = std::io::stdout().lock();
                let _ = writeln!(o, "H");
                let _ = o.flush();
            }
            execs += 1;
            let v = c.execute();
            if let Some(viol) = &v.violation {
                if viol.key == key {
                    cur = c;
                    path.push(i);
                    continue 'outer;
                }
            }
        }
        break;
    }
    (cur, path, execs)
}

pub fn follow_path(mut case: Box<dyn Case>, path: &[usize]) -> Option<Box<dyn Case>> {
    for &i in path {
        let mut c = case.shrink();
        if i >= c.len() {
            return None;
        }
        case = c.swap_remove(i);
    }
    Some(case)
}

// ---------------------------------------------------------------------------
// worker side

pub fn worker_main(prop: &dyn Property, tier: Tier, seed: u64, start: u64, stride: u64, end: u64) {
    let stdout = std::io::stdout();
    let mut evaluations = 0u64;
    let mut executions = 0u64;
    let mut discarded = 0u64;
    let mut discard_reasons: BTreeMap<String, u64> = BTreeMap::new();
    let mut fps: BTreeSet<u64> = BTreeSet::new();
    let mut stats = Stats::default();
    let mut instr = 0u64;
    let mut sim_us = 0u64;
    let mut samples: Vec<Json> = vec![];
    let mut seen_keys: BTreeMap<String, u64> = BTreeMap::new();
    let trace_runs = std::env::var("VERIF_TRACE_RUNS").is_ok();
    let mut minimised_keys = 0usize;
    let mut run = start;
    while run < end {
        {
            let mut o = stdout.lock();
            let _ = writeln!(o, "B {}", run);
            let _ = o.flush();
        }
        let case = case_for(prop, seed, tier, run);
        let v = case.execute();
        if trace_runs {
            let mut o = stdout.lock();
            let _ = writeln!(
                o,
                "R {} {:x} {} {}",
                run,
                v.fingerprint,
                v.violation.as_ref().map(|x| x.key.replace(' ', "_")).unwrap_or_else(|| "-".into()),
                v.discarded.as_ref().map(|x| x.replace(' ', "_")).unwrap_or_else(|| "-".into())
            );
        }
        evaluations += 1;
        executions += v.executions.max(1);
        instr += v.instr;
        sim_us += v.sim_us;
        stats.merge(&v.stats);
        if let Some(why) = &v.discarded {
            discarded += 1;
            let k: String = why.chars().take(60).collect();
            *discard_reasons.entry(k).or_insert(0) += 1;
        }
        if v.nontrivial && v.discarded.is_none() {
            fps.insert(v.fingerprint);
            if samples.len() < 2 && run % 7 == start % 7 {
                samples.push(case.describe());
            }
        }
        if let Some(viol) = v.violation {
            let n = seen_keys.entry(viol.key.clone()).or_insert(0);
            *n += 1;
            // a badly broken tree produces hundreds of distinct keys: each worker minimises and
            // reports its first few, the others are only counted (violation_counts_by_key)
            minimised_keys += (*n == 1) as usize;
            if *n == 1 && !trace_runs && minimised_keys <= 4 {
                let (min_case, path, execs) = minimise(case, &viol.key, 1500);
                let mv = min_case.execute();
                let detail = mv
                    .violation
                    .as_ref()
                    .map(|x| x.detail.clone())
                    .unwrap_or(viol.detail.clone());
                let j = obj()
                    .set("run", run)
                    .set("key", viol.key.clone())
                    .set("detail", detail)
                    .set("path", Json::Arr(path.iter().map(|p| Json::Int(*p as i64)).collect()))
                    .set("shrink_executions", execs)
                    .set("scenario", min_case.describe())
                    .build();
                let mut o = stdout.lock();
                let _ = writeln!(o, "V {}", j.to_string_compact());
                let _ = o.flush();
            }
        }
        run += stride;
    }
    if samples.is_empty() && evaluations > 0 {
        samples.push(case_for(prop, seed, tier, start).describe());
    }
    let mut counters = BTreeMap::new();
    for (k, v) in &stats.counters {
        counters.insert(k.to_string(), Json::Int(*v as i64));
    }
    let mut dr = BTreeMap::new();
    for (k, v) in &discard_reasons {
        dr.insert(k.clone(), Json::Int(*v as i64));
    }
    let mut kc = BTreeMap::new();
    for (k, v) in &seen_keys {
        kc.insert(k.clone(), Json::Int(*v as i64));
    }
    let j = obj()
        .set("evaluations", evaluations)
        .set("executions", executions)
        .set("discarded", discarded)
        .set("discard_reasons", Json::Obj(dr))
        .set("instr", instr)
        .set("sim_us", sim_us)
        .set("counters", Json::Obj(counters))
        .set("samples", Json::Arr(samples))
        .set("violation_counts", Json::Obj(kc))
        .build();
    let mut o = stdout.lock();
    let _ = writeln!(o, "S {}", j.to_string_compact());
    let mut line = String::from("F");
    for (i, f) in fps.iter().enumerate() {
        line.push_str(&format!(" {:x}", f));
        if i % 512 == 511 {
            let _ = writeln!(o, "{}", line);
            line = String::from("F");
        }
    }
    let _ = writeln!(o, "{}", line);
    let _ = writeln!(o, "E");
    let _ = o.flush();
}

// ---------------------------------------------------------------------------
// parent side

pub struct Known {
    pub findings: Vec<(String, String, String)>, // property, key, text
}

pub fn load_known(path: &str) -> Known {
    let mut findings = vec![];
    if let Ok(text) = std::fs::read_to_string(path) {
        for line in text.lines() {
            let line = line.trim();
            if let Some(rest) = line.strip_prefix("finding:") {
                let rest = rest.trim();
                let mut prop = String::new();
                let mut key = String::new();
                let mut text = String::new();
                for (i, tok) in rest.splitn(3, ' ').enumerate() {
                    match i {
                        0 => prop = tok.trim_start_matches("property=").to_string(),
                        1 => key = tok.trim_start_matches("key=").to_string(),
                        _ => text = tok.to_string(),
                    }
                }
                findings.push((prop, key, text));
            }
        }
    }
    Known { findings }
}

enum Msg {
    Line(usize, String),
    Exit(usize, Option<i32>, bool), // worker, exit code, killed by signal
}

pub struct SweepResult {
    pub exit_code: i32,
}

fn verif_root() -> String {
    std::env::var("VERIF_ROOT").unwrap_or_else(|_| "/verif".to_string())
}

pub fn run_sweep(prop: &dyn Property, tier: Tier, seed: u64, workers: usize) -> SweepResult {
    let t0 = Instant::now();
    let budget = prop.budget(tier);
    let runs = std::env::var("VERIF_RUNS")
        .ok()
        .and_then(|s| s.parse::<u64>().ok())
        .unwrap_or(budget.runs);
    // VERIF_BUDGET_DIV=n: a fraction of the tier's budget (cross-property bench)
    let runs = match std::env::var("VERIF_BUDGET_DIV").ok().and_then(|s| s.parse::<u64>().ok()) {
        Some(d) if d > 1 => (runs / d).max(1),
        _ => runs,
    };
    let exe = std::env::current_exe().expect("current_exe");
    let (tx, rx) = mpsc::channel::<Msg>();
    let mut children = vec![];
    for w in 0..workers {
        let mut child = Command::new(&exe)
            .arg("worker")
            .arg(prop.id())
            .arg(tier.name())
            .arg(seed.to_string())
            .arg(w.to_string())
            .arg(workers.to_string())
            .arg(runs.to_string())
            .stdin(Stdio::null())
            .stdout(Stdio::piped())
            .stderr(Stdio::null())
            .spawn()
            .expect("spawn worker");
        let out = child.stdout.take().unwrap();
        let txc = tx.clone();
        std::thread::spawn(move || {
            let rd = BufReader::new(out);
            for line in rd.lines() {
                match line {
                    Ok(l) => {
                        if txc.send(Msg::Line(w, l)).is_err() {
                            break;
                        }
                    }
                    Err(_) => break,
                }
            }
            // every line the worker wrote has been delivered
            let _ = txc.send(Msg::Exit(w, None, false));
        });
        children.push(Some(child));
    }
    drop(tx);
    let mut last_run: Vec<Option<u64>> = vec![None; workers];
    let mut last_seen: Vec<Instant> = vec![Instant::now(); workers];
    let mut done: Vec<bool> = vec![false; workers];
    let mut finished_clean: Vec<bool> = vec![false; workers];
    let mut summaries: Vec<Json> = vec![];
    let mut fps: BTreeSet<u64> = BTreeSet::new();
    let mut violations: Vec<Json> = vec![];
    let mut harness_errors: Vec<String> = vec![];
    loop {
        if done.iter().all(|d| *d) {
            break;
        }
        match rx.recv_timeout(Duration::from_millis(500)) {
            Ok(Msg::Line(w, l)) => {
                last_seen[w] = Instant::now();
                if let Some(r) = l.strip_prefix("B ") {
                    last_run[w] = r.trim().parse().ok();
                } else if let Some(j) = l.strip_prefix("V ") {
                    match Json::parse(j) {
                        Ok(v) => violations.push(v),
                        Err(e) => harness_errors.push(format!("bad V line: {}", e)),
                    }
                } else if let Some(j) = l.strip_prefix("S ") {
                    match Json::parse(j) {
                        Ok(v) => summaries.push(v),
                        Err(e) => harness_errors.push(format!("bad S line: {}", e)),
                    }
                } else if let Some(f) = l.strip_prefix("F") {
                    for h in f.split_whitespace() {
                        if let Ok(x) = u64::from_str_radix(h, 16) {
                            fps.insert(x);
                        }
                    }
                } else if l == "E" {
                    finished_clean[w] = true;
                }
            }
            Ok(Msg::Exit(w, _, _)) => {
                // end of the worker's output: it has exited (or closed its pipe); all its lines are in
                if !done[w] {
                    done[w] = true;
                    let status = children[w].as_mut().and_then(|c| c.wait().ok());
                    if !finished_clean[w] {
                        use std::os::unix::process::ExitStatusExt;
                        let key = match status.and_then(|s| s.signal()) {
                            Some(sig) => format!("abort:signal{}", sig),
                            None => format!("abort:exit{}", status.and_then(|s| s.code()).unwrap_or(-1)),
                        };
                        violations.push(crash_violation(prop, seed, tier, last_run[w], &key));
                    }
                }
            }
            Err(mpsc::RecvTimeoutError::Timeout) => {}
            Err(mpsc::RecvTimeoutError::Disconnected) => {
                // all reader threads ended
                for w in 0..workers {
                    done[w] = true;
                }
            }
        }
        for w in 0..workers {
            if done[w] {
                continue;
            }
            if let Some(child) = children[w].as_mut() {
                match child.try_wait() {
                    // exited: its reader thread reports the end of its output (Msg::Exit) once every
                    // line has been delivered, however loaded the machine is
                    Ok(Some(_)) => {}
                    Ok(None) => {
                        if last_seen[w].elapsed() > Duration::from_secs(budget.watchdog_s) {
                            let _ = child.kill();
                            let _ = child.wait();
                            done[w] = true;
                            violations.push(crash_violation(prop, seed, tier, last_run[w], "hang:watchdog"));
                        }
                    }
                    Err(_) => {
                        done[w] = true;
                    }
                }
            }
        }
    }
    for c in children.iter_mut().flatten() {
        let _ = c.wait();
    }
    let wall = t0.elapsed().as_secs_f64();
    finish(prop, tier, seed, wall, summaries, fps, violations, harness_errors)
}

fn crash_violation(prop: &dyn Property, seed: u64, tier: Tier, run: Option<u64>, key: &str) -> Json {
    let scenario = match run {
        Some(r) => case_for(prop, seed, tier, r).describe(),
        None => Json::Null,
    };
    obj()
        .set("run", run.map(|r| r as i64).unwrap_or(-1))
        .set("key", format!("{}:{}", prop.id(), key))
        .set("detail", "worker process died or stopped making progress while executing this run".to_string())
        .set("path", Json::Arr(vec![]))
        .set("shrink_executions", 0i64)
        .set("scenario", scenario)
        .build()
}

#[allow(clippy::too_many_arguments)]
fn finish(
    prop: &dyn Property,
    tier: Tier,
    seed: u64,
    wall: f64,
    summaries: Vec<Json>,
    fps: BTreeSet<u64>,
    violations: Vec<Json>,
    mut harness_errors: Vec<String>,
) -> SweepResult {
    let root = verif_root();
    let geti = |j: &Json, k: &str| j.get(k).and_then(|x| x.as_i64()).unwrap_or(0);
    let mut evaluations = 0i64;
    let mut executions = 0i64;
    let mut discarded = 0i64;
    let mut instr = 0i64;
    let mut sim_us = 0i64;
    let mut counters: BTreeMap<String, i64> = BTreeMap::new();
    let mut discard_reasons: BTreeMap<String, i64> = BTreeMap::new();
    let mut violation_counts: BTreeMap<String, i64> = BTreeMap::new();
    let mut samples: Vec<Json> = vec![];
    for s in &summaries {
        evaluations += geti(s, "evaluations");
        executions += geti(s, "executions");
        discarded += geti(s, "discarded");
        instr += geti(s, "instr");
        sim_us += geti(s, "sim_us");
        if let Some(Json::Obj(m)) = s.get("counters") {
            for (k, v) in m {
                *counters.entry(k.clone()).or_insert(0) += v.as_i64().unwrap_or(0);
            }
        }
        if let Some(Json::Obj(m)) = s.get("discard_reasons") {
            for (k, v) in m {
                *discard_reasons.entry(k.clone()).or_insert(0) += v.as_i64().unwrap_or(0);
            }
        }
        if let Some(Json::Obj(m)) = s.get("violation_counts") {
            for (k, v) in m {
                *violation_counts.entry(k.clone()).or_insert(0) += v.as_i64().unwrap_or(0);
            }
        }
        if let Some(Json::Arr(a)) = s.get("samples") {
            for x in a {
                if samples.len() < 3 {
                    samples.push(x.clone());
                }
            }
        }
    }
    // one violation per key, the one with the smallest run index
    let mut by_key: BTreeMap<String, Json> = BTreeMap::new();
    for v in violations {
        let key = v.get("key").and_then(|k| k.as_str()).unwrap_or("?").to_string();
        let run = geti(&v, "run");
        match by_key.get(&key) {
            Some(old) if geti(old, "run") <= run => {}
            _ => {
                by_key.insert(key, v);
            }
        }
    }
    let known = load_known(&format!("{}/known_findings.txt", root));
    let _ = std::fs::create_dir_all(format!("{}/replays", root));
    let _ = std::fs::create_dir_all(format!("{}/evidence", root));
    let mut new_violations = 0;
    let mut known_matched: Vec<Json> = vec![];
    for (key, v) in &by_key {
        // crash/hang verdicts are C03's subject: a crash already recorded as a C03 finding is
        // reported as that finding by every other check that happens to run into it
        let as_c03 = {
            let rest = key.splitn(2, ':').nth(1).unwrap_or("");
            if rest.starts_with("panic:") || rest.starts_with("hang:") || rest.starts_with("abort:") {
                Some(format!("C03:{}", rest))
            } else {
                None
            }
        };
        let matched = known.findings.iter().find(|(p, k, _)| {
            (p == prop.id() && k == key) || (p == "C03" && Some(k) == as_c03.as_ref())
        });
        let run = geti(v, "run");
        let fname = format!(
            "{}/replays/{}-{}-{}-{}.replay",
            root,
            prop.id(),
            seed,
            run,
            sanitize(key)
        );
        let replay = obj()
            .set("property", prop.id())
            .set("seed", seed)
            .set("tier", tier.name())
            .set("run", run)
            .set("key", key.clone())
            .set("detail", v.get("detail").cloned().unwrap_or(Json::Null))
            .set("path", v.get("path").cloned().unwrap_or(Json::Arr(vec![])))
            .set("scenario", v.get("scenario").cloned().unwrap_or(Json::Null))
            .build();
        match matched {
            Some((_, _, text)) => {
                println!("KNOWN-FINDING: property={} {} [{}]", prop.id(), text, key);
                known_matched.push(Json::Str(key.clone()));
                // keep a replay file for known findings as well (overwritten every run)
                let _ = std::fs::write(&fname, replay.to_string_pretty());
            }
            None => {
                if std::fs::write(&fname, replay.to_string_pretty()).is_err() {
                    harness_errors.push(format!("cannot write {}", fname));
                }
                // confirm in a fresh process before reporting
                let confirmed = replay_in_child(&fname);
                match confirmed {
                    ReplayOutcome::Reproduced => {
                        println!("VIOLATION property={} replay={}", prop.id(), fname);
                        println!(
                            "  key={} run={} detail={}",
                            key,
                            run,
                            v.get("detail").and_then(|d| d.as_str()).unwrap_or("")
                        );
                        new_violations += 1;
                    }
                    ReplayOutcome::NotReproduced(msg) => {
                        harness_errors.push(format!(
                            "violation {} (run {}) did not reproduce in a fresh process: {}",
                            key, run, msg
                        ));
                    }
                }
            }
        }
    }
    // dead probes
    let mut dead: Vec<&str> = vec![];
    if evaluations > 0 && tier == Tier::Thorough || evaluations >= 1000 {
        for p in prop.required_probes() {
            if counters.get(p).copied().unwrap_or(0) == 0 {
                dead.push(p);
            }
        }
    }
    if !dead.is_empty() {
        harness_errors.push(format!("probes never hit: {:?}", dead));
    }
    let runs_per_hour = if wall > 0.0 {
        (evaluations as f64 / wall * 3600.0) as i64
    } else {
        0
    };
    let mut cj = BTreeMap::new();
    for (k, v) in &counters {
        cj.insert(k.clone(), Json::Int(*v));
    }
    let mut dj = BTreeMap::new();
    for (k, v) in &discard_reasons {
        dj.insert(k.clone(), Json::Int(*v));
    }
    let mut vj = BTreeMap::new();
    for (k, v) in &violation_counts {
        vj.insert(k.clone(), Json::Int(*v));
    }
    if samples.is_empty() {
        samples.push(Json::Str("no sample produced".into()));
    }
    let coverage = obj()
        .set("evaluations", evaluations.max(0))
        .set("distinct_nontrivial", fps.len())
        .set("rule", prop.rule())
        .set("samples", Json::Arr(samples))
        .set("simulated_executions", executions)
        .set("discarded_not_judged", discarded)
        .set("discard_reasons", Json::Obj(dj))
        .set("vm_instructions", instr)
        .set("simulated_seconds", sim_us as f64 / 1e6)
        .set("runs_per_hour", runs_per_hour)
        .set("seeds_per_hour", runs_per_hour)
        .set("fault_and_probe_counters", Json::Obj(cj))
        .set("violation_counts_by_key", Json::Obj(vj))
        .set("known_findings_matched", Json::Arr(known_matched))
        .set("exhaustive", false)
        .set(
            "components_real",
            vec![
                "basic::lang (lexer, parser, Line, Error)",
                "basic::mach (codegen, link, program, runtime, listing, var, val, operation, function, stack)",
            ],
        )
        .set(
            "components_stub",
            vec![
                "src/term main loop (event dispatch re-implemented by the simulator's terminal actor)",
                "term::save / term::load (in-memory SimDisk over Listing::lines / Listing::load_str)",
                "entropy and clock (simulated through the verif hooks)",
            ],
        )
        .build();
    let mut assumptions: Vec<Json> = prop.assumptions().iter().map(|s| Json::Str(s.to_string())).collect();
    assumptions.push(Json::Str(
        "order of entries inside one Errors event is hash order in the linker; compared as sorted lists".into(),
    ));
    let ev = obj()
        .set("property_id", prop.id())
        .set("tier", tier.name())
        .set("seed", seed)
        .set("level", prop.level())
        .set("coverage", coverage)
        .set("assumptions", Json::Arr(assumptions))
        .set("wall_s", wall)
        .set("violations", new_violations as i64)
        .set(
            "harness_errors",
            Json::Arr(harness_errors.iter().map(|s| Json::Str(s.clone())).collect()),
        )
        .build();
    let path = format!("{}/evidence/{}.json", root, prop.id());
    if std::fs::write(&path, ev.to_string_pretty()).is_err() {
        harness_errors.push(format!("cannot write {}", path));
    }
    println!(
        "{} {} seed={} runs={} executions={} distinct={} discarded={} wall={:.1}s violations={} known={}",
        prop.id(),
        tier.name(),
        seed,
        evaluations,
        executions,
        fps.len(),
        discarded,
        wall,
        new_violations,
        by_key.len() as i64 - new_violations as i64
    );
    let exit_code = if new_violations > 0 {
        1
    } else if !harness_errors.is_empty() {
        for e in &harness_errors {
            eprintln!("HARNESS-ERROR: {}", e);
        }
        2
    } else {
        0
    };
    SweepResult { exit_code }
}

fn sanitize(s: &str) -> String {
    s.chars()
        .map(|c| if c.is_ascii_alphanumeric() || c == '-' || c == '_' { c } else { '_' })
        .take(60)
        .collect()
}

pub enum ReplayOutcome {
    Reproduced,
    NotReproduced(String),
}

/// Run `verif-sim replay-child <file>` in a fresh process: exit 1 = reproduced.
pub fn replay_in_child(file: &str) -> ReplayOutcome {
    let exe = std::env::current_exe().expect("current_exe");
    let mut child = match Command::new(&exe)
        .arg("replay-child")
        .arg(file)
        .stdin(Stdio::null())
        .stdout(Stdio::piped())
        .stderr(Stdio::null())
        .spawn()
    {
        Ok(c) => c,
        Err(e) => return ReplayOutcome::NotReproduced(format!("spawn: {}", e)),
    };
    let t0 = Instant::now();
    loop {
        match child.try_wait() {
            Ok(Some(status)) => {
                use std::os::unix::process::ExitStatusExt;
                let mut out = String::new();
                if let Some(mut o) = child.stdout.take() {
                    use std::io::Read;
                    let _ = o.read_to_string(&mut out);
                }
                let expect_abort = file_key(file).map(|k| k.contains("abort:")).unwrap_or(false);
                if status.signal().is_some() {
                    return if expect_abort {
                        ReplayOutcome::Reproduced
                    } else {
                        ReplayOutcome::NotReproduced(format!("child died with signal {:?}", status.signal()))
                    };
                }
                return match status.code() {
                    Some(1) => ReplayOutcome::Reproduced,
                    Some(c) => ReplayOutcome::NotReproduced(format!("exit {} {}", c, out.trim())),
                    None => ReplayOutcome::NotReproduced("no exit code".into()),
                };
            }
            Ok(None) => {
                if t0.elapsed() > Duration::from_secs(120) {
                    let _ = child.kill();
                    let _ = child.wait();
                    let expect_hang = file_key(file).map(|k| k.contains("hang:watchdog")).unwrap_or(false);
                    return if expect_hang {
                        ReplayOutcome::Reproduced
                    } else {
                        ReplayOutcome::NotReproduced("replay timed out".into())
                    };
                }
                std::thread::sleep(Duration::from_millis(20));
            }
            Err(e) => return ReplayOutcome::NotReproduced(format!("wait: {}", e)),
        }
    }
}

fn file_key(file: &str) -> Option<String> {
    let text = std::fs::read_to_string(file).ok()?;
    let j = Json::parse(&text).ok()?;
    j.get("key").and_then(|k| k.as_str()).map(|s| s.to_string())
}

/// Child side of a replay: rebuild the case from (seed, tier, run, path), check it is the
/// scenario stored in the file, execute it. Exit 1 = violation with the recorded key,
/// 0 = property holds on this scenario, 2 = harness error (drift).
pub fn replay_child(prop_lookup: &dyn Fn(&str) -> Option<&'static dyn Property>, file: &str) -> i32 {
    let text = match std::fs::read_to_string(file) {
        Ok(t) => t,
        Err(e) => {
            println!("cannot read {}: {}", file, e);
            return 2;
        }
    };
    let j = match Json::parse(&text) {
        Ok(j) => j,
        Err(e) => {
            println!("cannot parse {}: {}", file, e);
            return 2;
        }
    };
    let pid = j.get("property").and_then(|x| x.as_str()).unwrap_or("");
    let prop = match prop_lookup(pid) {
        Some(p) => p,
        None => {
            println!("unknown property {}", pid);
            return 2;
        }
    };
    let seed = j.get("seed").and_then(|x| x.as_i64()).unwrap_or(1) as u64;
    let run = j.get("run").and_then(|x| x.as_i64()).unwrap_or(0);
    let tier = Tier::parse(j.get("tier").and_then(|x| x.as_str()).unwrap_or("quick")).unwrap_or(Tier::Quick);
    let key = j.get("key").and_then(|x| x.as_str()).unwrap_or("").to_string();
    let path: Vec<usize> = j
        .get("path")
        .and_then(|x| x.as_arr())
        .map(|a| a.iter().filter_map(|x| x.as_i64()).map(|x| x as usize).collect())
        .unwrap_or_default();
    if run < 0 {
        println!("replay file has no run index");
        return 2;
    }
    let case = case_for(prop, seed, tier, run as u64);
    let case = match follow_path(case, &path) {
        Some(c) => c,
        None => {
            println!("minimisation path does not apply: generator drift");
            return 2;
        }
    };
    if let Some(stored) = j.get("scenario") {
        if *stored != Json::Null && *stored != case.describe() {
            println!("scenario in the file differs from the regenerated one: generator drift");
            return 2;
        }
    }
    let v = case.execute();
    match v.violation {
        Some(viol) => {
            println!("reproduced key={} detail={}", viol.key, viol.detail);
            if viol.key == key || key.contains("abort:") || key.contains("hang:watchdog") {
                1
            } else {
                println!("but the recorded key was {}", key);
                1
            }
        }
        None => {
            println!("no violation on this scenario");
            0
        }
    }
}


// ---------------------------------------------------------------------------
// determinism self-test

fn trace_runs(prop: &dyn Property, tier: Tier, seed: u64, runs: u64, workers: usize) -> Result<BTreeMap<u64, String>, String> {
    let exe = std::env::current_exe().map_err(|e| e.to_string())?;
    let mut children = vec![];
    for w in 0..workers {
        let child = Command::new(&exe)
            .arg("worker")
            .arg(prop.id())
            .arg(tier.name())
            .arg(seed.to_string())
            .arg(w.to_string())
            .arg(workers.to_string())
            .arg(runs.to_string())
            .env("VERIF_TRACE_RUNS", "1")
            .stdin(Stdio::null())
            .stdout(Stdio::piped())
            .stderr(Stdio::null())
            .spawn()
            .map_err(|e| e.to_string())?;
        children.push(child);
    }
    let mut map = BTreeMap::new();
    for mut c in children {
        let out = c.stdout.take().ok_or("no stdout")?;
        for line in BufReader::new(out).lines().map_while(|l| l.ok()) {
            if let Some(rest) = line.strip_prefix("R ") {
                let mut it = rest.splitn(2, ' ');
                if let (Some(run), Some(v)) = (it.next(), it.next()) {
                    if let Ok(r) = run.parse::<u64>() {
                        map.insert(r, v.to_string());
                    }
                }
            }
        }
        let _ = c.wait();
    }
    Ok(map)
}

/// Every run is executed three times, in different processes and under different worker counts
/// (hence different HashMap seeds, allocator layouts and neighbours); fingerprints of the
/// API/event log and verdicts must be identical. Exit 0 = deterministic, 2 = divergence.
pub fn selftest_determinism(prop: &dyn Property, tier: Tier, seed: u64, runs: u64) -> i32 {
    let t0 = Instant::now();
    let a = trace_runs(prop, tier, seed, runs, 16);
    let b = trace_runs(prop, tier, seed, runs, 5);
    let c = trace_runs(prop, tier, seed, runs, 1);
    match (a, b, c) {
        (Ok(a), Ok(b), Ok(c)) => {
            let mut bad = 0;
            for (run, va) in &a {
                let vb = b.get(run);
                let vc = c.get(run);
                if vb != Some(va) || vc != Some(va) {
                    bad += 1;
                    if bad <= 5 {
                        eprintln!("DIVERGENCE {} run {}: 16 workers {:?} / 5 workers {:?} / 1 worker {:?}", prop.id(), run, va, vb, vc);
                    }
                }
            }
            let complete = a.len() as u64 == runs && b.len() == a.len() && c.len() == a.len();
            println!(
                "determinism {} seed={} runs={} x3 processes (16/5/1 workers): {} divergent, complete={} wall={:.1}s",
                prop.id(),
                seed,
                a.len(),
                bad,
                complete,
                t0.elapsed().as_secs_f64()
            );
            if bad == 0 && complete {
                0
            } else {
                2
            }
        }
        _ => {
            eprintln!("HARNESS-ERROR: could not run the workers");
            2
        }
    }
}
