mod ast;
mod framework;
mod gen;
mod json;
mod prng;
mod props;
mod refbasic;
mod session;
mod world;

use framework::*;
use prng::Rng;

fn usage() -> ! {
    eprintln!("usage: verif-sim run <ID> --tier quick|thorough [--workers N]\n       verif-sim replay <file>\n       verif-sim show <ID> <seed> <run> [tier]\n       verif-sim demo <seed>");
    std::process::exit(2);
}

fn env_seed() -> u64 {
    std::env::var("VERIF_SEED").ok().and_then(|s| s.parse().ok()).unwrap_or(1)
}

fn main() {
    world::install_panic_hook();
    let args: Vec<String> = std::env::args().collect();
    match args.get(1).map(|s| s.as_str()) {
        Some("run") => {
            let id = args.get(2).cloned().unwrap_or_else(|| usage());
            let mut tier = std::env::var("VERIF_TIER").ok().and_then(|t| Tier::parse(&t)).unwrap_or(Tier::Quick);
            let mut workers = std::thread::available_parallelism().map(|n| n.get()).unwrap_or(4).min(16);
            let mut i = 3;
            while i < args.len() {
                match args[i].as_str() {
                    "--tier" => {
                        tier = Tier::parse(args.get(i + 1).map(|s| s.as_str()).unwrap_or("")).unwrap_or_else(|| usage());
                        i += 1;
                    }
                    "--workers" => {
                        workers = args.get(i + 1).and_then(|s| s.parse().ok()).unwrap_or_else(|| usage());
                        i += 1;
                    }
                    _ => usage(),
                }
                i += 1;
            }
            let prop = props::lookup(&id).unwrap_or_else(|| {
                eprintln!("unknown property {}", id);
                std::process::exit(2)
            });
            let r = run_sweep(prop, tier, env_seed(), workers);
            std::process::exit(r.exit_code);
        }
        Some("worker") => {
            let id = &args[2];
            let tier = Tier::parse(&args[3]).unwrap();
            let seed: u64 = args[4].parse().unwrap();
            let start: u64 = args[5].parse().unwrap();
            let stride: u64 = args[6].parse().unwrap();
            let end: u64 = args[7].parse().unwrap();
            let prop = props::lookup(id).unwrap();
            worker_main(prop, tier, seed, start, stride, end);
        }
        Some("replay") => {
            let file = args.get(2).cloned().unwrap_or_else(|| usage());
            let text = std::fs::read_to_string(&file).unwrap_or_default();
            let pid = json::Json::parse(&text)
                .ok()
                .and_then(|j| j.get("property").and_then(|p| p.as_str()).map(|s| s.to_string()))
                .unwrap_or_default();
            match replay_in_child(&file) {
                ReplayOutcome::Reproduced => {
                    println!("VIOLATION property={} replay={}", pid, file);
                    std::process::exit(1);
                }
                ReplayOutcome::NotReproduced(msg) => {
                    if msg.starts_with("exit 0") {
                        println!("replay {}: property holds on this scenario ({})", file, msg);
                        std::process::exit(0);
                    }
                    eprintln!("HARNESS-ERROR: replay {}: {}", file, msg);
                    std::process::exit(2);
                }
            }
        }
        Some("replay-child") => {
            let file = args.get(2).cloned().unwrap_or_else(|| usage());
            std::process::exit(replay_child(&props::lookup, &file));
        }
        Some("show") => {
            let id = args.get(2).cloned().unwrap_or_else(|| usage());
            let seed: u64 = args.get(3).and_then(|s| s.parse().ok()).unwrap_or(1);
            let run: u64 = args.get(4).and_then(|s| s.parse().ok()).unwrap_or(0);
            let tier = args.get(5).and_then(|s| Tier::parse(s)).unwrap_or(Tier::Quick);
            let prop = props::lookup(&id).unwrap_or_else(|| usage());
            let case = case_for(prop, seed, tier, run);
            println!("{}", case.describe().to_string_pretty());
            let v = case.execute();
            println!("violation={:?}\ndiscarded={:?}\nnontrivial={} executions={} instr={}\nstats={:?}", v.violation, v.discarded, v.nontrivial, v.executions, v.instr, v.stats.counters);
        }
        Some("gencheck") => {
            let n: u64 = args.get(2).and_then(|s| s.parse().ok()).unwrap_or(1000);
            let mut bad = 0;
            let mut kinds: std::collections::BTreeMap<String, (u64, String)> = Default::default();
            for i in 0..n {
                let mut rng = Rng::for_run(7, "gencheck", i);
                let cfg = gen::GenCfg::swarm(&mut rng);
                let prog = gen::gen_program(&mut rng, cfg);
                let lines = ast::render_program(&prog);
                let mut w = world::World::booted(world::Sched::fixed(5000), 1, false);
                for l in &lines {
                    w.line(l, &world::LineIo::default());
                }
                let listed: Vec<String> = w.listing_text().lines().map(|s| s.to_string()).collect();
                if listed != lines {
                    for (a, b) in listed.iter().zip(lines.iter()) {
                        if a != b {
                            let e = kinds.entry("listing-not-fixed-point".into()).or_insert((0, format!("{} => {}", b, a)));
                            e.0 += 1;
                            break;
                        }
                    }
                }
                let o = w.line("RUN", &world::LineIo::budget(10));
                for e in &w.events[o.ev_start..o.ev_end] {
                    if let world::Ev::Errors(es) = e {
                        for x in es {
                            if x.has_column() {
                                bad += 1;
                                let ln = x.line.unwrap();
                                let src = lines.iter().find(|l| l.starts_with(&format!("{} ", ln))).cloned().unwrap_or_default();
                                let code = x.text.split(" IN ").next().unwrap_or("").to_string();
                                let msg = x.text.split("; ").nth(1).unwrap_or("").to_string();
                                let e = kinds.entry(format!("{} {}", code, msg)).or_insert((0, format!("{} :: {}", x.text, src)));
                                e.0 += 1;
                            }
                        }
                    }
                }
            }
            println!("{} compile errors in {} programs", bad, n);
            for (k, (c, ex)) in kinds {
                println!("{:6} {}\n        e.g. {}", c, k, ex);
            }
        }
        Some("selftest") => {
            // verif-sim selftest <ID|all> [runs] : determinism of every run across processes and worker counts
            let id = args.get(2).cloned().unwrap_or_else(|| "all".into());
            let runs: u64 = args.get(3).and_then(|s| s.parse().ok()).unwrap_or(2000);
            let mut code = 0;
            for p in props::ALL {
                if id == "all" || id == p.id() {
                    let n = if p.id() == "C18" { runs.min(120) } else if p.id() == "C13" { runs.min(300) } else { runs };
                    let c = selftest_determinism(*p, Tier::Quick, env_seed(), n);
                    if c != 0 {
                        code = c;
                    }
                }
            }
            std::process::exit(code);
        }
        Some("script") => {
            // type the lines of a file at the prompt and print every event (debugging aid)
            let file = args.get(2).cloned().unwrap_or_else(|| usage());
            let q: u32 = args.get(3).and_then(|s| s.parse().ok()).unwrap_or(5000);
            let text = std::fs::read_to_string(&file).unwrap_or_default();
            let mut w = world::World::booted(world::Sched::fixed(q), 1, true);
            for l in text.lines() {
                let (line, replies) = match l.split_once(" <<< ") {
                    Some((a, b)) => (a, b.split('|').map(|s| s.to_string()).collect::<Vec<_>>()),
                    None => (l, vec![]),
                };
                let mut io = world::LineIo {
                    replies,
                    ..Default::default()
                };
                if let Some(b) = std::env::var("VERIF_SCRIPT_BUDGET").ok().and_then(|s| s.parse().ok()) {
                    io.max_instr = b;
                }
                let o = w.line(line, &io);
                for e in &w.events[o.ev_start..o.ev_end] {
                    println!("{:?}", e);
                }
            }
            if let Some(f) = &w.fatal {
                println!("FATAL {} {}", f.tag, f.detail);
            }
        }
        Some("demo") => {
            let seed: u64 = args.get(2).and_then(|s| s.parse().ok()).unwrap_or(1);
            demo(seed);
        }
        _ => usage(),
    }
}

fn demo(seed: u64) {
    let mut rng = Rng::for_run(seed, "demo", 0);
    let cfg = gen::GenCfg::swarm(&mut rng);
    let prog = gen::gen_program(&mut rng, cfg);
    let lines = ast::render_program(&prog);
    for l in &lines {
        println!("{}", l);
    }
    let mut r = refbasic::Ref::new(&prog);
    r.auto_reply = Some(rng.fork());
    let ended = r.direct_line(&[ast::Stmt::Run(None)]);
    println!("--- ref ({:?}, grey={:?}) ---\n{}", ended, r.grey, r.out);
    let mut w = world::World::booted(world::Sched::fixed(5000), 1, true);
    for l in &lines {
        w.line(l, &world::LineIo::default());
    }
    let io = world::LineIo {
        replies: r.used_replies.clone(),
        ..Default::default()
    };
    let o = w.line("RUN", &io);
    println!("--- real (fatal={:?}) ---\n{}", w.fatal.as_ref().map(|f| f.tag.clone()), w.out_text(&o));
}
