//! C01 - compiled execution follows the documented control-flow semantics.
//!
//! Generated programs run on the real VM under seeded slice schedules, with
//! replies, STOP/END + CONT, TRON and layout knobs; the oracle is RefBASIC, the
//! reference interpreter over the generator's own AST, compared on the full
//! screen transcript of every typed line.

use crate::ast::*;
use crate::framework::*;
use crate::gen::{gen_program, Gen, GenCfg};
use crate::json::{obj, Json};
use crate::prng::Rng;
use crate::props::c03::fatal_violation;
use crate::refbasic::{Ended, Ref};
use crate::session::*;
use crate::world::*;

pub struct C01;

/// One step of a typed session.
#[derive(Clone, Debug, PartialEq)]
pub enum Step {
    /// a direct-mode line (AST)
    Direct(Vec<Stmt>),
    /// the stored program is edited into this version (changed lines typed, vanished lines deleted by number)
    Edit(Program),
    /// a RENUM command that succeeds: the typed text and the program as the model renumbering has it
    Renum(String, Program),
}

#[derive(Clone)]
pub struct C01Case {
    pub prog: Program,
    /// what is typed after the program
    pub session: Vec<Step>,
    pub replies: Vec<String>,
    pub sched_variant: usize,
    pub sched_seed: u64,
    pub entropy: u64,
    pub hold_snapshot: bool,
    pub prop: &'static str,
}

pub fn sched_of(variant: usize, seed: u64) -> Sched {
    let mut r = Rng::new(seed);
    match variant % 7 {
        0 => Sched::fixed(1),
        1 => Sched::fixed(DEFAULT_Q),
        2 => Sched::list((0..500).map(|_| 1 + r.below(8) as u32).collect(), 3),
        3 => Sched::list((0..500).map(|_| 1 + r.geometric(8) * 5).collect(), 20),
        4 => Sched::list((0..500).map(|_| *r.pick(&[2u32, 3, 5, 7, 11, 13])).collect(), 7),
        5 => Sched::list((0..500).map(|i| if i % 2 == 0 { 1 } else { DEFAULT_Q }).collect(), DEFAULT_Q),
        _ => Sched::fixed(2 + r.below(8) as u32),
    }
}

/// Screen text of a line's events with error messages cut down to code and line.
pub fn screen_text(evs: &[Ev]) -> String {
    let mut s = String::new();
    for e in evs {
        match e {
            Ev::Errors(v) => {
                for e in v {
                    s.push_str(&err_code(&e.text));
                    s.push('\n');
                }
            }
            other => s.push_str(&render_events(std::slice::from_ref(other))),
        }
    }
    s
}

pub fn classify(expected: &str, got: &str) -> String {
    // first differing line of the two transcripts
    let mut el = expected.split('\n');
    let mut gl = got.split('\n');
    loop {
        match (el.next(), gl.next()) {
            (Some(a), Some(b)) if a == b => continue,
            (a, b) => {
                let a = a.unwrap_or("");
                let b = b.unwrap_or("");
                let code = |s: &str| -> Option<String> {
                    if s.starts_with('?') {
                        Some(s.split(" IN ").next().unwrap_or(s).to_string())
                    } else {
                        None
                    }
                };
                return match (code(a), code(b)) {
                    (Some(x), Some(y)) => {
                        if x == y {
                            "error-line-number".to_string()
                        } else {
                            format!("error:{}/{}", x, y)
                        }
                    }
                    (Some(x), None) => format!("missing-error:{}", x),
                    (None, Some(y)) => format!("unexpected-error:{}", y),
                    (None, None) => {
                        if a.contains('[') != b.contains('[') {
                            "trace".to_string()
                        } else if a.trim() == b.trim() || a.replace(' ', "") == b.replace(' ', "") {
                            "spacing".to_string()
                        } else {
                            "output".to_string()
                        }
                    }
                };
            }
        }
    }
}

impl C01Case {
    pub fn lines(&self) -> Vec<String> {
        render_program(&self.prog)
    }

    /// Run the reference model over the session. Returns per-step transcripts and how each ended.
    pub fn reference(&self, auto: Option<Rng>) -> (Vec<(String, Ended)>, Ref) {
        let mut r = Ref::new(&self.prog);
        r.replies = self.replies.iter().cloned().collect();
        r.auto_reply = auto;
        r.max_steps = 30_000;
        let mut out = vec![];
        for step in &self.session {
            r.out.clear();
            match step {
                Step::Direct(line) => {
                    let ended = r.direct_line(line);
                    out.push((r.out.clone(), ended.clone()));
                    if r.grey.is_some() || matches!(ended, Ended::NeedInput | Ended::Budget) {
                        break;
                    }
                }
                Step::Renum(text, _) if text == "NEW" => {
                    r.new_program();
                    out.push((String::new(), Ended::Ready));
                }
                Step::Edit(p) | Step::Renum(_, p) => {
                    r.edit_program(p);
                    out.push((String::new(), Ended::Ready));
                }
            }
        }
        (out, r)
    }
}

/// The lines to type to turn program `old` into `new`.
pub fn edit_lines(old: &Program, new: &Program) -> Vec<String> {
    let mut out = vec![];
    let old_text: std::collections::BTreeMap<u16, String> = (0..old.lines.len())
        .map(|i| (old.lines[i].num, render_line(old, i)))
        .collect();
    let new_nums: std::collections::BTreeSet<u16> = new.lines.iter().map(|l| l.num).collect();
    for n in old_text.keys() {
        if !new_nums.contains(n) {
            out.push(n.to_string());
        }
    }
    for i in 0..new.lines.len() {
        let t = render_line(new, i);
        if old_text.get(&new.lines[i].num) != Some(&t) {
            out.push(t);
        }
    }
    out
}

impl Case for C01Case {
    fn execute(&self) -> Verdict {
        let mut v = Verdict::default();
        let (expected, r) = self.reference(None);
        if let Some(g) = &r.grey {
            v.discarded = Some(g.clone());
            v.executions = 0;
            return v;
        }
        for (k, n) in &r.kinds {
            // reach measure: statement kinds executed by judged programs
            let name: &'static str = match *k {
                "FOR" => "reach.FOR",
                "NEXT" => "reach.NEXT",
                "GOSUB" => "reach.GOSUB",
                "RETURN" => "reach.RETURN",
                "ONGOTO" => "reach.ONGOTO",
                "ONGOSUB" => "reach.ONGOSUB",
                "WHILE" => "reach.WHILE",
                "IF" => "reach.IF",
                "INPUT" => "reach.INPUT",
                "READ" => "reach.READ",
                "STOP" => "reach.STOP",
                "END" => "reach.END",
                "DEF" => "reach.DEF",
                "CONT" => "reach.CONT",
                "TRON" => "reach.TRON",
                "SWAP" => "reach.SWAP",
                "MIDSET" => "reach.MIDSET",
                "DIM" => "reach.DIM",
                "RESTORE" => "reach.RESTORE",
                _ => "reach.other",
            };
            v.stats.add(name, *n);
        }
        if r.redo_count > 0 {
            v.stats.add("reach.REDO", r.redo_count);
        }
        let mut w = World::booted(sched_of(self.sched_variant, self.sched_seed), self.entropy, false);
        enter_program(&mut w, &self.lines());
        if self.hold_snapshot {
            w.snap_take();
        }
        let mut reply_pos = 0usize;
        let mut fail: Option<Violation> = None;
        let mut cur = self.prog.clone();
        for (i, step) in self.session.iter().enumerate() {
            if i >= expected.len() {
                break;
            }
            let line = match step {
                Step::Direct(l) => l,
                Step::Edit(p) => {
                    for l in edit_lines(&cur, p) {
                        w.line(&l, &LineIo::budget(1000));
                    }
                    cur = p.clone();
                    v.stats.bump("fault.edit");
                    if w.fatal.is_none() && w.listing_text().lines().map(|s| s.to_string()).collect::<Vec<_>>() != render_program(&cur) {
                        v.discarded = Some("listing after the edit is not the rendered program".into());
                        break;
                    }
                    continue;
                }
                Step::Renum(text, p) => {
                    w.line(text, &LineIo::budget(1000));
                    cur = p.clone();
                    v.stats.bump("fault.renum");
                    if w.fatal.is_none() && w.listing_text().lines().map(|s| s.to_string()).collect::<Vec<_>>() != render_program(&cur) {
                        // the valid RENUM did not produce the model renumbering (C14 judges RENUM as such;
                        // here a RESTORE n or branch that did not follow its line is what matters)
                        fail = Some(Violation {
                            key: format!("{}:renum-listing", self.prop),
                            detail: format!("{:?}: the listing is {:?}, the model renumbering {:?}", text, w.listing_text(), render_program(&cur)),
                        });
                        break;
                    }
                    continue;
                }
            };
            let text = render_stmts(&cur, line);
            let io = LineIo {
                replies: self.replies[reply_pos.min(self.replies.len())..].to_vec(),
                max_instr: 60_000,
                ..Default::default()
            };
            let o = w.line(&text, &io);
            if w.fatal.is_some() {
                break;
            }
            let evs = &w.events[o.ev_start..o.ev_end];
            reply_pos += replies_used(evs);
            let got = screen_text(evs);
            let (exp, ended) = &expected[i];
            if *ended == Ended::NeedInput {
                // the model stopped at a prompt with no reply left: compare the prefix only
                if !got.starts_with(exp.as_str()) {
                    fail = Some(Violation {
                        key: format!("{}:{}", self.prop, classify(exp, &got)),
                        detail: format!("line {:?}: expected a transcript starting with {:?}, got {:?}", text, exp, got),
                    });
                }
                break;
            }
            if o.budget_hit {
                fail = Some(Violation {
                    key: format!("{}:did-not-terminate", self.prop),
                    detail: format!("line {:?}: the model ends with {:?}, the interpreter was still running after 60000 instructions", text, ended),
                });
                break;
            }
            if !line.is_empty() && line.iter().all(|s| matches!(s, Stmt::Data(_))) {
                // DATA typed as a direct statement: what it answers is not settled by the manual
                // (only that it must not become part of the program's DATA, which later lines show)
                v.stats.bump("c01.direct_data_not_judged");
                continue;
            }
            if got != *exp {
                fail = Some(Violation {
                    key: format!("{}:{}", self.prop, classify(exp, &got)),
                    detail: format!("line {:?}: expected {:?} got {:?}", text, exp, got),
                });
                break;
            }
            v.stats.bump("c01.lines_compared");
        }
        if self.hold_snapshot {
            w.snap_check(0);
        }
        if let Some(f) = &w.fatal {
            fail = Some(fatal_violation(self.prop, f));
        }
        v.violation = fail;
        v.stats.merge(&w.stats);
        v.instr = w.total_instr;
        v.sim_us = w.sim_us;
        v.executions = 1;
        v.fingerprint = w.log_hash;
        v.nontrivial = w.total_instr > 10;
        v
    }

    fn shrink(&self) -> Vec<Box<dyn Case>> {
        let mut out: Vec<Box<dyn Case>> = vec![];
        if !self.session.iter().any(|s| matches!(s, Step::Edit(_) | Step::Renum(..))) {
            for p in shrink_program(&self.prog) {
                out.push(Box::new(C01Case {
                    prog: p,
                    ..self.clone()
                }));
            }
        }
        if self.session.len() > 1 {
            for i in 0..self.session.len() {
                let mut s = self.session.clone();
                s.remove(i);
                out.push(Box::new(C01Case {
                    session: s,
                    ..self.clone()
                }));
            }
        }
        if !self.replies.is_empty() {
            let mut r = self.replies.clone();
            r.pop();
            out.push(Box::new(C01Case {
                replies: r,
                ..self.clone()
            }));
        }
        if self.sched_variant != 1 {
            out.push(Box::new(C01Case {
                sched_variant: 1,
                ..self.clone()
            }));
        }
        if self.hold_snapshot {
            out.push(Box::new(C01Case {
                hold_snapshot: false,
                ..self.clone()
            }));
        }
        out
    }

    fn describe(&self) -> Json {
        let (expected, r) = self.reference(None);
        obj()
            .set("kind", "program + typed session; real transcript compared with the reference model's")
            .set("program", program_json(&self.lines()))
            .set("session", {
                let mut cur = self.prog.clone();
                let mut v = vec![];
                for st in &self.session {
                    match st {
                        Step::Direct(l) => v.push(Json::Str(render_stmts(&cur, l))),
                        Step::Edit(p) => {
                            v.push(obj().set("edit_by_typing", edit_lines(&cur, p)).build());
                            cur = p.clone();
                        }
                        Step::Renum(text, p) => {
                            v.push(Json::Str(text.clone()));
                            cur = p.clone();
                        }
                    }
                }
                Json::Arr(v)
            })
            .set("replies", self.replies.clone())
            .set("quantum_schedule_variant", self.sched_variant)
            .set("quantum_schedule_seed", self.sched_seed)
            .set("snapshot_held_during_run", self.hold_snapshot)
            .set("entropy", self.entropy)
            .set(
                "reference_transcript",
                Json::Arr(expected.iter().map(|(t, e)| Json::Str(format!("{:?} -> {:?}", e, t))).collect()),
            )
            .set("reference_grey", r.grey.clone().unwrap_or_default())
            .build()
    }
}

/// Build a session for a program: RUN (or RUN n / GOTO n), CONT after each stop, a few direct lines.
pub fn build_session(rng: &mut Rng, prog: &Program, cfg: &GenCfg) -> Vec<Step> {
    let mut session: Vec<Step> = vec![];
    if rng.pct(20) {
        // direct statements before the run (RUN clears them, GOTO keeps them)
        let mut sub = rng.fork();
        let mut g = Gen::new(&mut sub, cfg.clone());
        let mut out = vec![];
        g.simple_line_public(&mut out);
        if !out.iter().any(|s| matches!(s, Stmt::Input { .. } | Stmt::Read(_))) {
            session.push(Step::Direct(out));
        }
    }
    let first = match rng.below(10) {
        0..=6 => vec![Stmt::Run(None)],
        7 => {
            if prog.lines.is_empty() {
                vec![Stmt::Run(None)]
            } else {
                vec![Stmt::Run(Some(Target::L(0)))]
            }
        }
        _ => {
            if prog.lines.is_empty() {
                vec![Stmt::Run(None)]
            } else {
                // GOTO the first line: like RUN without the CLEAR
                vec![Stmt::Goto(Target::L(0))]
            }
        }
    };
    session.push(Step::Direct(first));
    session
}

/// Extend the session adaptively (CONT only after STOP/END, inspection lines in between) while
/// running the reference model with synthesised replies; records the replies it used.
pub fn finish_session(rng: &mut Rng, case: &mut C01Case, cfg: &GenCfg) {
    let mut auto = rng.fork();
    let max_conts = if cfg.stop || cfg.end_mid { 1 + rng.below(5) } else { rng.below(2) };
    let mut conts = 0;
    loop {
        let (res, r) = case.reference(Some(auto.clone()));
        case.replies = r.used_replies.clone();
        if r.grey.is_some() || res.len() < case.session.len() {
            return;
        }
        let last = res.last().map(|x| x.1.clone());
        let add_cont = match last {
            Some(Ended::Break) => true,
            Some(Ended::Ready) => rng.pct(35),
            _ => false,
        };
        if !add_cont || conts >= max_conts {
            // a replay of the recorded replies must see the same session
            let (_res2, r2) = case.reference(None);
            let _ = r2;
            return;
        }
        conts += 1;
        if rng.pct(25) {
            case.session.push(Step::Direct(vec![Stmt::Print {
                q: false,
                items: vec![
                    PItem::E(Expr::var("N%")),
                    PItem::Semi,
                    PItem::E(Expr::var("A")),
                    PItem::Semi,
                    PItem::E(Expr::var("S$")),
                ],
            }]));
        }
        case.session.push(Step::Direct(vec![Stmt::Cont]));
        // keep the synthesiser's stream stable: replies already recorded are replayed first
        auto = auto.clone();
    }
}

impl Property for C01 {
    fn id(&self) -> &'static str {
        "C01"
    }
    fn generate(&self, rng: &mut Rng, _tier: Tier) -> Box<dyn Case> {
        let mut cfg = GenCfg::swarm(rng);
        if cfg.tron {
            // CONT re-announces the current line under TRON: not settled by the manual
            cfg.stop = false;
            cfg.end_mid = false;
        }
        if rng.below(250) == 0 {
            // the documented control flow also has to survive Ctrl-C + CONT at every instruction
            // (C13's enumeration over this check's kind of program: NEXT lists, landing pads,
            // self-restarts, ON.. at the end)
            cfg.tron = false;
            return crate::props::c13::interrupt_case(rng, cfg, "C01", 300);
        }
        let prog = gen_program(rng, cfg.clone());
        if !cfg.tron && !cfg.stop && !cfg.end_mid && !cfg.fns && !prog.lines.is_empty() && rng.pct(8) {
            // tracing switched on from the prompt and left on over several commands that enter the
            // program at its first line, at arbitrary lines, and twice in one direct line
            let n = prog.lines.len();
            let mut session = vec![Step::Direct(vec![Stmt::Tron])];
            for _ in 0..(2 + rng.below(3)) {
                let t = Target::L(if rng.pct(50) { 0 } else { rng.usize(n) });
                session.push(Step::Direct(match rng.below(5) {
                    0..=1 => vec![Stmt::Run(None)],
                    2 => vec![Stmt::Run(Some(t))],
                    3 => vec![Stmt::Goto(t)],
                    _ => vec![Stmt::Gosub(t.clone()), Stmt::Gosub(t)],
                }));
            }
            session.push(Step::Direct(vec![Stmt::Troff]));
            let mut case = C01Case {
                prog,
                session,
                replies: vec![],
                sched_variant: rng.usize(7),
                sched_seed: rng.next_u64(),
                entropy: rng.next_u64(),
                hold_snapshot: false,
                prop: "C01",
            };
            let (_res, r) = case.reference(Some(rng.fork()));
            case.replies = r.used_replies.clone();
            return Box::new(case);
        }
        let session = build_session(rng, &prog, &cfg);
        let mut case = C01Case {
            prog,
            session,
            replies: vec![],
            sched_variant: rng.usize(7),
            sched_seed: rng.next_u64(),
            entropy: rng.next_u64(),
            hold_snapshot: rng.pct(15),
            prop: "C01",
        };
        finish_session(rng, &mut case, &cfg);
        Box::new(case)
    }
    fn budget(&self, tier: Tier) -> Budget {
        match tier {
            Tier::Quick => Budget {
                runs: 400_000,
                watchdog_s: 60,
            },
            Tier::Thorough => Budget {
                runs: 15_000_000,
                watchdog_s: 60,
            },
        }
    }
    fn rule(&self) -> &'static str {
        "one evaluation = one generated program (3-60 lines: LET, PRINT, IF-THEN-ELSE with statement and line branches, GOTO, GOSUB/RETURN incl. guarded recursion, ON..GOTO/GOSUB with selectors below/inside/above the list, FOR/NEXT with NEXT lists, negative and fractional steps, early exit, WHILE/WEND, END, STOP, INPUT, READ/DATA/RESTORE, DIM, DEF FN, TRON/TROFF, REM, multi-statement lines, planted runtime errors) plus a typed session (direct statements, RUN / RUN n / GOTO n, CONT after every stop; 8% of the sessions switch tracing on at the prompt and issue 2-4 RUN / RUN n / GOTO n / GOSUB n:GOSUB n commands before TROFF) executed under one of 7 seeded quantum distributions; the full screen transcript of every typed line is compared with RefBASIC; distinct = distinct API/event log fingerprint; non-trivial = more than 10 VM instructions; cases the model does not judge (grey) are discarded and counted"
    }
    fn assumptions(&self) -> Vec<&'static str> {
        vec![
            "RefBASIC implements the rules of DESIGN.md appendix B (taken from the manual and the property statements); everything outside the generated fragment is simply not generated",
            "error reports are compared by code and line number (the text after ';' is dropped)",
            "grey zones (appendix A) set the model's grey flag and discard the case: CONT under TRON, FN calls while tracing, comparisons of nearly equal floating values, numbers needing exponent notation, FOR on a variable with an active loop, CLEAR with active frames, END followed only by REM/DATA",
            "Ctrl-C is not injected here (interrupt transparency is C13's verdict)",
        ]
    }
    fn required_probes(&self) -> Vec<&'static str> {
        vec![
            "reach.FOR",
            "reach.GOSUB",
            "reach.ONGOTO",
            "reach.ONGOSUB",
            "reach.WHILE",
            "reach.INPUT",
            "reach.READ",
            "reach.STOP",
            "reach.CONT",
            "reach.DEF",
            "reach.TRON",
            "reach.REDO",
            "c01.lines_compared",
        ]
    }
}
