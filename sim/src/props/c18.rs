//! C18 - memory pools are bounded at 64K and completed statements leave nothing behind.
//!
//! Workload A (no residue): a loop body composed of statement families
//! (PRINT lists, LET with temporaries, SWAP, MID$=, READ+RESTORE, IF/ELSE,
//! ON..GOSUB / ON..GOTO with the selector in and out of range, completed inner
//! FOR / WHILE, GOSUB incl. RETURN out of an open FOR, FN calls, INPUT with REDO
//! cycles, DIM+ERASE, forward GOTO, INKEY$) is wrapped as FOR / GOTO-counter /
//! WHILE loop, as a subroutine called in a loop, or typed as a direct-mode loop,
//! and iterated 300 000 times (more than four times the pool size). The program
//! STOPs at two iterations 1000 apart; the probe hook compares stack, variable,
//! array and code sizes there. No growth: 10% of the cases still run to the end.
//! Growth: the run is always continued, so the verdict is behavioural (OUT OF
//! MEMORY) and never the probe's.
//! Also: a program that restarts itself with RUN from inside GOSUB/FOR 70 000
//! times, and one direct line typed 70 000 times.
//!
//! Workload B (limits): GOSUB to self, FN recursion, FOR re-entered by GOTO,
//! more than 65 535 non-default variables, DATA values and opcodes must end in
//! ?OUT OF MEMORY (never a crash, hang or growth past the address-space limit);
//! afterwards the canary line works, the listing is intact and after NEW / CLEAR
//! a small program behaves as on a fresh runtime. Filling, zeroing and filling
//! again more slots than the pool holds in total must succeed.

use crate::framework::*;
use crate::json::{obj, Json};
use crate::prng::Rng;
use crate::props::c03::fatal_violation;
use crate::session::*;
use crate::world::*;

pub struct C18;

const N_ITER: u64 = 300_000;
const K1: u64 = 300;
const K2: u64 = 1300;
const LOOP_BUDGET: u64 = 60_000_000;

#[derive(Clone, Copy, Debug, PartialEq)]
enum Outer {
    For,
    GotoCounter,
    While,
    GosubWrapped,
    DirectFor,
}

#[derive(Clone, Copy, Debug, PartialEq)]
enum Fam {
    Print,
    Let,
    Swap,
    MidSet,
    ReadRestore,
    IfElse,
    OnGosub,
    OnGoto,
    InnerFor,
    InnerWhile,
    Gosub,
    Fn,
    Input,
    DimErase,
    GotoSkip,
    Inkey,
}

const ONE_LINERS: &[Fam] = &[Fam::Print, Fam::Let, Fam::Swap, Fam::MidSet, Fam::ReadRestore, Fam::InnerFor, Fam::InnerWhile, Fam::Fn, Fam::DimErase, Fam::Gosub, Fam::OnGosub, Fam::Inkey];
const ALL_FAMS: &[Fam] = &[
    Fam::Print,
    Fam::Let,
    Fam::Swap,
    Fam::MidSet,
    Fam::ReadRestore,
    Fam::IfElse,
    Fam::OnGosub,
    Fam::OnGoto,
    Fam::InnerFor,
    Fam::InnerWhile,
    Fam::Gosub,
    Fam::Fn,
    Fam::Input,
    Fam::DimErase,
    Fam::GotoSkip,
    Fam::Inkey,
];

#[derive(Clone, Debug)]
enum Kind {
    Loop {
        fams: Vec<(Fam, u32)>,
        outer: Outer,
        full: bool,
    },
    /// a program that restarts itself with RUN from inside GOSUB / FOR
    SelfRestart { variant: u32 },
    /// one direct line typed many times (with a resident program)
    RepeatDirect { variant: u32 },
    /// one direct line typed and broken by Ctrl-C many times
    RepeatInterrupted { variant: u32 },
    Limit { which: u32, variant: u32, then_new: bool },
    /// fill / zero / fill more slots than the pool holds
    ZeroFrees { ty: u32, zero: u32 },
}

#[derive(Clone)]
struct C18Case {
    kind: Kind,
    sched_variant: usize,
    entropy: u64,
}

fn sched(v: usize) -> Sched {
    match v % 3 {
        0 => Sched::fixed(DEFAULT_Q),
        1 => Sched::fixed(977),
        _ => Sched::fixed(64),
    }
}

/// Body lines of one family. `n` is the first free line number (step 1 inside a family);
/// returns (lines, needs_input_replies).
fn family_lines(f: Fam, v: u32, n: u32, one_line: bool) -> (Vec<String>, Option<Vec<String>>) {
    let l = |k: u32, s: &str| format!("{} {}", n + k, s);
    let pick = |opts: &[&str]| opts[(v as usize) % opts.len()].to_string();
    match f {
        Fam::Print => (
            vec![l(0, &pick(&["PRINT A;B,S$;", "PRINT", "PRINT TAB(5);\"X\";SPC(2);POS(0)", "PRINT \"A\",\"B\",", "?N%;M% \"J\" A", "PRINT S$+T$;LEN(S$):CLS", "PRINT A*2+B;:PRINT"]))],
            None,
        ),
        Fam::Let => (
            vec![l(
                0,
                &pick(&[
                    "A=B*2+1:N%=(N% MOD 7)+1:S$=LEFT$(\"HELLO\",2)+T$",
                    "AR(N% MOD 5)=A:SA$(1)=S$+\"x\"",
                    "A=((1+2)*(3+4))/(5+6):B=-A",
                    "X$=MID$(\"ABCDEF\",2,3)+STR$(N%)+CHR$(65)",
                    "U#=1.5#*2:A=CSNG(U#):N%=CINT(A)",
                    "LET A=ABS(-3)+SGN(B)+INT(2.5)+LEN(S$)+ASC(\"A\")+VAL(\"2\")",
                ]),
            )],
            None,
        ),
        Fam::Swap => (vec![l(0, &pick(&["SWAP A,B", "SWAP S$,T$", "SWAP AR(1),AR(2)", "SWAP N%,M%", "SWAP SA$(0),SA$(1):SWAP A,AR(3)"]))], None),
        Fam::MidSet => (vec![l(0, &pick(&["S$=\"HELLO\":MID$(S$,1,1)=\"Z\"", "S$=\"HELLO\":MID$(S$,2)=\"ab\"", "SA$(2)=\"WORLD\":MID$(SA$(2),2,2)=T$"]))], None),
        Fam::ReadRestore => (vec![l(0, &pick(&["READ X:READ X$:RESTORE", "RESTORE 40:READ X", "READ X,X$,Y:RESTORE"]))], None),
        Fam::IfElse => (
            vec![l(
                0,
                &pick(&[
                    "IF C9-INT(C9/2)*2=0 THEN X=1 ELSE X=2",
                    "IF A>B THEN SWAP A,B:X=3 ELSE X=4:Y=5",
                    "IF C9-INT(C9/3)*3=0 THEN IF A>0 THEN X=1 ELSE X=2 ELSE X=3",
                    "IF 0 THEN X=1",
                    "IF S$<T$ THEN X$=S$ ELSE X$=T$",
                ]),
            )],
            None,
        ),
        Fam::OnGosub => {
            let sel = ["0", "1", "2", "3", "C9-INT(C9/4)*4", "N% MOD 4", "5"][(v as usize) % 7];
            (vec![l(0, &format!("ON {} GOSUB 8000,8100", sel))], None)
        }
        Fam::OnGoto => {
            let sel = ["0", "1", "2", "3", "C9-INT(C9/4)*4", "N% MOD 4"][(v as usize) % 6];
            (
                vec![
                    l(0, &format!("ON {} GOTO {},{}", sel, n + 2, n + 3)),
                    l(1, &format!("Y=0:GOTO {}", n + 4)),
                    l(2, &format!("Y=1:GOTO {}", n + 4)),
                    l(3, "Y=2"),
                    l(4, "REM JOIN"),
                ],
                None,
            )
        }
        Fam::InnerFor => {
            if one_line || v % 2 == 0 {
                (
                    vec![l(
                        0,
                        &pick(&[
                            "FOR J%=1 TO 3:X=J%:NEXT",
                            "FOR J%=1 TO 3:FOR K%=1 TO 2:NEXT:NEXT",
                            "FOR J%=1 TO 3:FOR K%=1 TO 2:NEXT K%,J%",
                            "FOR X1=1 TO 0:NEXT",
                            "FOR J%=3 TO 1 STEP -1:NEXT J%",
                            "FOR X1=0 TO 1 STEP .5:X=X1:NEXT X1",
                        ]),
                    )],
                    None,
                )
            } else {
                (vec![l(0, "FOR J%=1 TO 2"), l(1, "FOR K%=1 TO 2:X=J%*K%"), l(2, "NEXT K%"), l(3, "NEXT")], None)
            }
        }
        Fam::InnerWhile => {
            if one_line || v % 2 == 0 {
                (vec![l(0, &pick(&["W%=0:WHILE W%<2:W%=W%+1:WEND", "WHILE 0:X=1:WEND", "W%=0:WHILE W%<2:W%=W%+1:V%=0:WHILE V%<1:V%=V%+1:WEND:WEND"]))], None)
            } else {
                (vec![l(0, "W%=0"), l(1, "WHILE W%<2"), l(2, "W%=W%+1"), l(3, "WEND")], None)
            }
        }
        Fam::Gosub => (vec![l(0, &pick(&["GOSUB 8000", "GOSUB 8200", "GOSUB 8300", "GOSUB 8400", "GOSUB 8000:GOSUB 8200"]))], None),
        Fam::Fn => (vec![l(0, &pick(&["A=FNA(FNA(2)):X$=FNB$(\"Q\")", "PRINT FNA(1);", "X=FNC(1,2)+FNA(3)", "IF FNA(1)>1 THEN X=FNA(FNC(1,1))"]))], None),
        Fam::Input => match v % 3 {
            0 => (vec![l(0, "INPUT X")], Some(vec!["1".into(), "X".into(), "2".into()])),
            1 => (vec![l(0, "INPUT \"V\";X,X$")], Some(vec!["1,A".into(), "1".into(), "2,B".into(), "Q,Z".into(), "3,C".into()])),
            _ => (vec![l(0, "INPUT ,N%,AR(N%)")], Some(vec!["1,2".into(), "9,9,9".into(), "99999,1".into(), "2,3".into()])),
        },
        Fam::DimErase => (vec![l(0, &pick(&["DIM Q(5):Q(1)=1:ERASE Q", "DIM Q$(2,2):Q$(1,1)=\"A\":ERASE Q$", "Q%(3)=1:ERASE Q%"]))], None),
        Fam::GotoSkip => (vec![l(0, &format!("GOTO {}", n + 2)), l(1, "X=99"), l(2, &format!("IF 1 THEN {}", n + 4)), l(3, "X=98"), l(4, "'LAND")], None),
        Fam::Inkey => (vec![l(0, "Z$=INKEY$:X=LEN(Z$)")], None),
    }
}

const SUBS: &[&str] = &[
    "8000 X=1:RETURN",
    "8100 FOR J%=1 TO 2:NEXT:RETURN",
    "8200 FOR J%=1 TO 3:IF J%=2 THEN RETURN",
    "8210 NEXT:RETURN",
    "8300 GOSUB 8000:RETURN",
    "8400 FOR J%=1 TO 2:FOR K%=1 TO 2:IF K%=2 THEN RETURN",
    "8410 NEXT:NEXT:RETURN",
];

const HEADER: &[&str] = &[
    "10 DEF FNA(X)=X+1:DEF FNB$(X$)=X$+\"!\":DEF FNC(X,Y)=FNA(X)*Y",
    "20 DIM AR(5),SA$(3)",
    "30 S$=\"HELLO\":T$=\"AB\":A=1.5:B=2:N%=3:M%=4",
    "40 DATA 5,\"X\",7",
];

struct Built {
    program: Vec<String>,
    /// typed after the program instead of RUN (direct-mode loops)
    direct: Option<String>,
    replies: Vec<String>,
}

fn build_loop(fams: &[(Fam, u32)], outer: Outer) -> Built {
    let mut program: Vec<String> = HEADER.iter().map(|s| s.to_string()).collect();
    let mut replies: Vec<String> = vec![];
    let stop = format!("IF C9={} OR C9={} THEN STOP", K1, K2);
    if outer == Outer::DirectFor {
        let mut stmts: Vec<String> = vec![];
        for (f, v) in fams {
            let (lines, _) = family_lines(*f, *v, 0, true);
            for l in lines {
                stmts.push(l.splitn(2, ' ').nth(1).unwrap_or("").to_string());
            }
        }
        program.push("50 END".into());
        for s in SUBS {
            program.push(s.to_string());
        }
        // the header has to be executed once: RUN it (it ends at line 40), then the direct loop
        let direct = format!("FOR C9=1 TO {}:{}:NEXT:PRINT \"DONE\";C9", 70_000, stmts.join(":"));
        return Built {
            program,
            direct: Some(direct),
            replies,
        };
    }
    let mut body: Vec<String> = vec![];
    let mut n = 200u32;
    for (f, v) in fams {
        let (lines, r) = family_lines(*f, *v, n, false);
        n += lines.len() as u32 + 2;
        body.extend(lines);
        if let Some(r) = r {
            if replies.is_empty() {
                replies = r;
            }
        }
    }
    match outer {
        Outer::For => {
            program.push(format!("100 FOR L9=1 TO {}", N_ITER));
            program.push(format!("110 C9=C9+1:{}", stop));
            program.extend(body);
            program.push("900 NEXT L9".into());
        }
        Outer::GotoCounter => {
            program.push("100 C9=0".into());
            program.push(format!("110 C9=C9+1:{}", stop));
            program.extend(body);
            program.push(format!("900 IF C9<{} THEN 110", N_ITER));
        }
        Outer::While => {
            program.push(format!("100 C9=0:WHILE C9<{}", N_ITER));
            program.push(format!("110 C9=C9+1:{}", stop));
            program.extend(body);
            program.push("900 WEND".into());
        }
        Outer::GosubWrapped => {
            program.push(format!("100 FOR L9=1 TO {}", N_ITER));
            program.push(format!("110 C9=C9+1:{}", stop));
            program.push("120 GOSUB 190".into());
            program.push("130 NEXT".into());
            program.push("140 GOTO 910".into());
            program.push("190 REM BODY".into());
            program.extend(body);
            program.push("900 RETURN".into());
        }
        Outer::DirectFor => unreachable!(),
    }
    program.push("910 PRINT \"DONE\";C9".into());
    program.push("920 END".into());
    for s in SUBS {
        program.push(s.to_string());
    }
    Built {
        program,
        direct: None,
        replies,
    }
}

#[derive(Clone, Copy, PartialEq, Debug)]
struct Sizes {
    stack: usize,
    vars: usize,
    dims: usize,
    code: usize,
}

fn sizes(w: &World) -> Sizes {
    let p = w.rt.verif_probe();
    Sizes {
        stack: p.stack_len,
        vars: p.vars_len,
        dims: p.dims_len,
        // the stored program's code (the direct line's own code follows it and differs per line)
        code: p.entry_address,
    }
}

fn line_errors(w: &World, o: &LineOut) -> Vec<String> {
    let mut v = vec![];
    for e in &w.events[o.ev_start..o.ev_end] {
        match e {
            Ev::Errors(es) => {
                for x in es {
                    if !x.text.starts_with("?BREAK") && !x.text.starts_with("?REDO") {
                        v.push(x.text.clone());
                    }
                }
            }
            Ev::TermError(t) => v.push(t.clone()),
            _ => {}
        }
    }
    v
}

fn stopped_by_stop(w: &World, o: &LineOut) -> bool {
    w.events[o.ev_start..o.ev_end]
        .iter()
        .any(|e| matches!(e, Ev::Errors(es) if es.iter().any(|x| x.text.starts_with("?BREAK IN"))))
        && !o.budget_hit
}

fn fam_names(fams: &[(Fam, u32)]) -> String {
    let mut v: Vec<String> = fams.iter().map(|(f, _)| format!("{:?}", f)).collect();
    v.sort();
    v.dedup();
    v.join("+")
}

/// After a fault: the canary line, the listing, and a small program after NEW / CLEAR.
fn aftermath(w: &mut World, typed: &[String], then_new: bool, entropy: u64, tag: &str) -> Option<Violation> {
    w.quiet = false;
    let o = w.line("PRINT 7", &LineIo::budget(1000));
    let t = tokens(&w.events[o.ev_start..o.ev_end]);
    if w.fatal.is_some() {
        return None;
    }
    if t != vec![Tok::Out(" 7 \n".into())] {
        return Some(Violation {
            key: format!("C18:{}:canary", tag),
            detail: format!("PRINT 7 after the fault gave {:?}", t),
        });
    }
    let listing = w.listing_text();
    let want: String = typed.iter().map(|l| format!("{}\n", l)).collect();
    if listing != want && w.fatal.is_none() {
        let a: Vec<&str> = listing.lines().collect();
        let i = (0..a.len().max(typed.len())).find(|i| a.get(*i).copied() != typed.get(*i).map(|s| s.as_str()));
        return Some(Violation {
            key: format!("C18:{}:listing-changed", tag),
            detail: format!("listing differs from what was typed at line index {:?} ({} vs {} lines)", i, a.len(), typed.len()),
        });
    }
    let small = ["10 FOR I=1 TO 3:PRINT I;:NEXT:GOSUB 30:A$=\"Q\":PRINT A$;X", "20 END", "30 PRINT \"S\";:RETURN"];
    let mut f = World::booted(Sched::fixed(DEFAULT_Q), entropy, false);
    if then_new {
        w.line("NEW", &LineIo::budget(1000));
        for l in small {
            w.line(l, &LineIo::budget(1000));
            f.line(l, &LineIo::budget(1000));
        }
        let o1 = w.line("RUN", &LineIo::budget(5000));
        let o2 = f.line("RUN", &LineIo::budget(5000));
        let t1 = tokens(&w.events[o1.ev_start..o1.ev_end]);
        let t2 = tokens(&f.events[o2.ev_start..o2.ev_end]);
        if t1 != t2 && w.fatal.is_none() {
            return Some(Violation {
                key: format!("C18:{}:not-usable-after-new", tag),
                detail: format!("small program after NEW: {} (fresh runtime is 'expected')", first_diff(&t2, &t1)),
            });
        }
    } else {
        w.line("CLEAR", &LineIo::budget(1000));
        let d = "FOR I=1 TO 3:PRINT I;:NEXT:A$=\"Q\":PRINT A$;X;Y%";
        let o1 = w.line(d, &LineIo::budget(5000));
        let o2 = f.line(d, &LineIo::budget(5000));
        let t1 = tokens(&w.events[o1.ev_start..o1.ev_end]);
        let t2 = tokens(&f.events[o2.ev_start..o2.ev_end]);
        if t1 != t2 && w.fatal.is_none() {
            return Some(Violation {
                key: format!("C18:{}:not-usable-after-clear", tag),
                detail: format!("direct loop after CLEAR: {} (fresh runtime is 'expected')", first_diff(&t2, &t1)),
            });
        }
    }
    None
}

fn limit_program(which: u32, variant: u32) -> (Vec<String>, &'static str, bool) {
    // (program, tag, budget exhaustion also acceptable)
    match which % 8 {
        7 => (
            // INPUT / PRINT / FN call executed with the stack almost full: must report, never crash
            vec![
                "5 GOSUB 10".to_string(),
                format!("10 D=D+1:IF D<{} THEN GOSUB 10", 65_515 + (variant % 20)),
                match variant % 3 {
                    0 => "15 INPUT Z,Z$,Y".to_string(),
                    1 => "15 DEF FNA(X)=X+1:PRINT FNA(FNA(FNA(1)));1;2;3;4;5;6;7;8;9".to_string(),
                    _ => "15 FOR I=1 TO 2:FOR J=1 TO 2:FOR K=1 TO 2:READ A,B,C:NEXT:NEXT:NEXT:DATA 1,2,3,4,5,6,7,8,9,1,2,3,4,5,6,7,8,9,1,2,3,4,5,6".to_string(),
                },
                "20 END".to_string(),
            ],
            "limit:statement-at-full-stack",
            true,
        ),
        0 => (
            vec![match variant % 3 {
                0 => "10 GOSUB 10".to_string(),
                1 => "10 X=X+1:GOSUB 10".to_string(),
                _ => "10 ON 1 GOSUB 10".to_string(),
            }],
            "limit:gosub-recursion",
            false,
        ),
        1 => (
            match variant % 3 {
                0 => vec!["10 DEF FNA(X)=FNA(X+1)".to_string(), "20 PRINT FNA(1)".to_string()],
                1 => vec!["10 DEF FNA(X)=FNB(X)+1:DEF FNB(X)=FNA(X)+1".to_string(), "20 A=FNA(1)".to_string()],
                _ => vec!["10 DEF FNA(X)=1+FNA(X+1)".to_string(), "20 IF FNA(1) THEN PRINT 1".to_string()],
            },
            "limit:fn-recursion",
            false,
        ),
        2 => (
            vec![match variant % 2 {
                0 => "10 FOR I=1 TO 2:FOR J=1 TO 2:GOTO 10".to_string(),
                _ => "10 FOR I=1 TO 2:GOSUB 10".to_string(),
            }],
            "limit:for-reentered",
            true,
        ),
        3 => (
            match variant % 4 {
                0 => vec!["10 DIM A(300,300)".to_string(), "20 FOR I=0 TO 300:FOR J=0 TO 300:A(I,J)=1:NEXT:NEXT".to_string()],
                1 => vec!["10 DIM A$(32767),B$(32767),C$(32767)".to_string(), "20 FOR I=0 TO 32767:A$(I)=\"x\":B$(I)=\"y\":C$(I)=\"z\":NEXT".to_string()],
                2 => vec!["10 DIM A%(32767),B%(32767),C%(32767)".to_string(), "20 FOR I=0 TO 32767:A%(I)=1:B%(I)=2:C%(I)=3:NEXT".to_string()],
                _ => vec!["10 DIM A#(40,40,40)".to_string(), "20 FOR I=0 TO 40:FOR J=0 TO 40:FOR K=0 TO 40:A#(I,J,K)=1:NEXT:NEXT:NEXT".to_string()],
            },
            "limit:variables",
            false,
        ),
        4 => {
            // more than 65535 DATA values
            let mut v = vec!["1 READ X:PRINT X".to_string()];
            for i in 0..136u32 {
                let items = vec!["1"; 490].join(",");
                v.push(format!("{} DATA {}", 10 + i, items));
            }
            (v, "limit:data", false)
        }
        5 => {
            // more than 65535 opcodes
            let mut v = vec![];
            for i in 0..150u32 {
                let stmts = vec!["A=1"; 240].join(":");
                v.push(format!("{} {}", 10 + i, stmts));
            }
            (v, "limit:code", false)
        }
        _ => (
            // the variable pool driven to its limit from direct mode as well
            vec!["10 DIM A(32767),B(32767),C(32767)".to_string(), "20 FOR I=0 TO 32767:A(I)=1:B(I)=1:C(I)=1:NEXT".to_string()],
            "limit:variables-then-zero",
            false,
        ),
    }
}

impl Case for C18Case {
    fn execute(&self) -> Verdict {
        let mut v = Verdict::default();
        let mut w = World::booted(sched(self.sched_variant), self.entropy, false);
        // in a quarter of the cases every Ctrl-C reaches the runtime twice before the next slice
        w.double_intr = self.entropy % 4 == 1;
        let mut fail: Option<Violation> = None;
        match &self.kind {
            Kind::Loop { fams, outer, full } => {
                let b = build_loop(fams, *outer);
                enter_program(&mut w, &b.program);
                w.quiet = true;
                let names = fam_names(fams);
                for (f, _) in fams {
                    w.stats.bump(match f {
                        Fam::Print => "c18.fam.print",
                        Fam::Let => "c18.fam.let",
                        Fam::Swap => "c18.fam.swap",
                        Fam::MidSet => "c18.fam.mid_set",
                        Fam::ReadRestore => "c18.fam.read_restore",
                        Fam::IfElse => "c18.fam.if_else",
                        Fam::OnGosub => "c18.fam.on_gosub",
                        Fam::OnGoto => "c18.fam.on_goto",
                        Fam::InnerFor => "c18.fam.inner_for",
                        Fam::InnerWhile => "c18.fam.inner_while",
                        Fam::Gosub => "c18.fam.gosub",
                        Fam::Fn => "c18.fam.fn",
                        Fam::Input => "c18.fam.input",
                        Fam::DimErase => "c18.fam.dim_erase",
                        Fam::GotoSkip => "c18.fam.goto_skip",
                        Fam::Inkey => "c18.fam.inkey",
                    });
                }
                w.stats.bump(match outer {
                    Outer::For => "c18.outer.for",
                    Outer::GotoCounter => "c18.outer.goto_counter",
                    Outer::While => "c18.outer.while",
                    Outer::GosubWrapped => "c18.outer.gosub_wrapped",
                    Outer::DirectFor => "c18.outer.direct_for",
                });
                let io = LineIo {
                    replies: b.replies.clone(),
                    max_instr: LOOP_BUDGET,
                    cycle_replies: true,
                    ..Default::default()
                };
                let mut errors: Vec<String> = vec![];
                let mut finished = false;
                let mut budget = false;
                if let Some(d) = &b.direct {
                    // execute the header once, then the direct loop, all 70 000 iterations
                    let o = w.line("RUN", &io);
                    errors.extend(line_errors(&w, &o));
                    let o = w.line(d, &io);
                    errors.extend(line_errors(&w, &o));
                    budget = o.budget_hit;
                    finished = w.tail.iter().any(|s| s.contains("DONE"));
                    w.stats.bump("c18.full_runs");
                } else {
                    let o = w.line("RUN", &io);
                    errors.extend(line_errors(&w, &o));
                    budget |= o.budget_hit;
                    let mut growth = false;
                    if errors.is_empty() && stopped_by_stop(&w, &o) {
                        let s1 = sizes(&w);
                        let o = w.line("CONT", &io);
                        errors.extend(line_errors(&w, &o));
                        budget |= o.budget_hit;
                        if errors.is_empty() && stopped_by_stop(&w, &o) {
                            let s2 = sizes(&w);
                            if s1 != s2 {
                                growth = true;
                                w.stats.bump("c18.growth_seen_by_probe");
                            }
                            if growth || *full {
                                w.stats.bump("c18.full_runs");
                                let o = w.line("CONT", &io);
                                errors.extend(line_errors(&w, &o));
                                budget |= o.budget_hit;
                                finished = w.tail.iter().any(|s| s.contains("DONE"));
                                if growth && errors.is_empty() && finished {
                                    // growth too slow to exhaust a pool within the iterations made
                                    w.stats.bump("c18.growth_not_confirmed");
                                }
                            } else {
                                w.stats.bump("c18.fast_path_no_growth");
                                finished = true;
                            }
                        }
                    }
                }
                let oom = errors.iter().find(|e| e.starts_with("?OUT OF MEMORY"));
                if let Some(e) = oom {
                    fail = Some(Violation {
                        key: format!("C18:residue:{:?}:{}", outer, names),
                        detail: format!("a loop over terminating statements ran out of memory: {} (program {:?})", e, b.program),
                    });
                } else if !errors.is_empty() {
                    v.discarded = Some(format!("loop body failed with {}", errors[0].split(" IN ").next().unwrap_or("")));
                } else if budget {
                    v.discarded = Some("loop did not finish within the instruction budget".into());
                } else if !finished && w.fatal.is_none() {
                    fail = Some(Violation {
                        key: format!("C18:loop-did-not-complete:{:?}:{}", outer, names),
                        detail: format!("no error, no DONE; last output {:?}", w.tail),
                    });
                }
                v.nontrivial = true;
            }
            Kind::SelfRestart { variant } => {
                let prog: Vec<String> = match variant % 3 {
                    0 => vec!["10 GOSUB 100", "20 PRINT \"DONE\":END", "100 FOR I=1 TO 3", "110 INPUT A", "120 IF A=1 THEN RUN", "130 NEXT", "140 RETURN"],
                    1 => vec!["10 FOR I=1 TO 2:FOR J=1 TO 2", "20 INPUT A:IF A=1 THEN RUN 10", "30 NEXT:NEXT", "40 PRINT \"DONE\""],
                    _ => vec!["10 DEF FNA(X)=X+1:DIM Q(3):Q(1)=FNA(1)", "20 GOSUB 40", "30 PRINT \"DONE\":END", "40 GOSUB 50:RETURN", "50 INPUT A$:IF A$=\"Y\" THEN RUN", "60 RETURN"],
                }
                .iter()
                .map(|s| s.to_string())
                .collect();
                enter_program(&mut w, &prog);
                w.quiet = true;
                let again = if variant % 3 == 2 { "Y" } else { "1" };
                let mut replies: Vec<String> = vec![again.to_string(); 70_000];
                for _ in 0..12 {
                    replies.push("0".into());
                }
                let io = LineIo {
                    replies,
                    max_instr: LOOP_BUDGET,
                    ..Default::default()
                };
                let o = w.line("RUN", &io);
                let errors = line_errors(&w, &o);
                w.stats.bump("c18.self_restart");
                if let Some(e) = errors.iter().find(|e| e.starts_with("?OUT OF MEMORY")) {
                    fail = Some(Violation {
                        key: "C18:residue:self-restart".into(),
                        detail: format!("a program restarting itself with RUN ran out of memory: {} (program {:?})", e, prog),
                    });
                } else if !errors.is_empty() {
                    v.discarded = Some(format!("self-restart program failed with {}", errors[0]));
                } else if !w.tail.iter().any(|s| s.contains("DONE")) && w.fatal.is_none() {
                    fail = Some(Violation {
                        key: "C18:loop-did-not-complete:self-restart".into(),
                        detail: format!("no error, no DONE; last output {:?}", w.tail),
                    });
                }
                v.nontrivial = true;
            }
            Kind::RepeatInterrupted { variant } => {
                // a direct-mode loop (or INPUT) broken by Ctrl-C 25 000 times: a break in direct mode
                // may leave nothing on the stack
                let prog: Vec<String> = ["10 X=X+1:RETURN"].iter().map(|s| s.to_string()).collect();
                enter_program(&mut w, &prog);
                w.quiet = true;
                let line = ["FOR I=1 TO 1000:NEXT", "FOR I=1 TO 9:FOR J=1 TO 999:NEXT:NEXT", "INPUT A,B", "FOR I=1 TO 1000:GOSUB 10:NEXT", "WHILE 1:A=A+1:WEND"][(*variant as usize) % 5];
                let mut first_err: Option<String> = None;
                for i in 0..25_000u32 {
                    let io = LineIo {
                        intrs: vec![When::Instr(3 + (i % 37) as u64)],
                        max_instr: 5000,
                        ..Default::default()
                    };
                    let o = w.line(line, &io);
                    if let Some(e) = line_errors(&w, &o).iter().find(|e| e.starts_with("?OUT OF MEMORY")) {
                        first_err = Some(format!("{} after {} interrupted lines", e, i + 1));
                        break;
                    }
                    if w.fatal.is_some() {
                        break;
                    }
                    w.events.clear();
                }
                w.stats.bump("c18.repeat_interrupted_direct");
                if first_err.is_none() && w.fatal.is_none() {
                    // and the stack is really empty: a recursion that needs 65 000 slots still fits
                    w.events.clear();
                    w.line("20 D=D+1:IF D<65000 THEN GOSUB 20", &LineIo::budget(100));
                    w.line("30 RETURN", &LineIo::budget(100));
                    let o = w.line("D=0:GOSUB 20:PRINT \"DONE\"", &LineIo::budget(3_000_000));
                    if let Some(e) = line_errors(&w, &o).iter().find(|e| e.starts_with("?OUT OF MEMORY")) {
                        first_err = Some(format!("{} in a recursion 65 000 deep typed after 25 000 interrupted lines", e));
                    }
                }
                if let Some(e) = first_err {
                    fail = Some(Violation {
                        key: "C18:residue:interrupted-direct-line".into(),
                        detail: format!("{:?} + Ctrl-C: {}", line, e),
                    });
                }
                v.nontrivial = true;
            }
            Kind::RepeatDirect { variant } => {
                let prog: Vec<String> = ["10 X=X+1:RETURN", "20 DATA 1,2,3"].iter().map(|s| s.to_string()).collect();
                enter_program(&mut w, &prog);
                w.quiet = true;
                let line = ["A=1", "FOR I=1 TO 2:NEXT", "GOSUB 10", "PRINT 1;", "WHILE 0:WEND:IF 1 THEN A=2 ELSE A=3", "READ Q:RESTORE", "A=", "GOTO 99", "DATA 1,2,3", "IF 1 THEN DATA \"A\",5"][(*variant as usize) % 10];
                let s0 = sizes(&w);
                let mut first_err: Option<String> = None;
                for i in 0..70_000u32 {
                    let o = w.line(line, &LineIo::budget(1000));
                    if let Some(e) = line_errors(&w, &o).iter().find(|e| e.starts_with("?OUT OF MEMORY")) {
                        first_err = Some(format!("{} after typing it {} times", e, i + 1));
                        break;
                    }
                    if w.fatal.is_some() {
                        break;
                    }
                    w.events.clear();
                }
                let s1 = sizes(&w);
                w.stats.bump("c18.repeat_direct");
                if let Some(e) = first_err {
                    fail = Some(Violation {
                        key: "C18:residue:repeated-direct-line".into(),
                        detail: format!("{:?}: {} (sizes {:?} -> {:?})", line, e, s0, s1),
                    });
                }
                v.nontrivial = true;
            }
            Kind::Limit { which, variant, then_new } => {
                let (prog, tag, budget_ok) = limit_program(*which, *variant);
                enter_program(&mut w, &prog);
                w.quiet = true;
                let io = LineIo {
                    max_instr: 8_000_000,
                    // wrong field count, then an unconvertible field, then acceptable replies
                    replies: vec!["1".into(), "x,DEEP,3".into(), "2,DEEP,3".into(), "4,X,5".into()],
                    ..Default::default()
                };
                let o = w.line("RUN", &io);
                let errors = line_errors(&w, &o);
                w.stats.bump(match tag {
                    "limit:statement-at-full-stack" => "c18.limit.statement_at_full_stack",
                    "limit:gosub-recursion" => "c18.limit.gosub_recursion",
                    "limit:fn-recursion" => "c18.limit.fn_recursion",
                    "limit:for-reentered" => "c18.limit.for_reentered",
                    "limit:variables" => "c18.limit.variables",
                    "limit:data" => "c18.limit.data",
                    "limit:code" => "c18.limit.code",
                    _ => "c18.limit.variables_then_zero",
                });
                let oom = errors.iter().any(|e| e.starts_with("?OUT OF MEMORY"));
                if oom {
                    w.stats.bump("c18.oom_reached");
                }
                if let Some(e) = errors.iter().find(|e| e.starts_with("?INTERNAL ERROR")) {
                    // a pool at its limit ends in OUT OF MEMORY, never in a broken VM invariant
                    if w.fatal.is_none() {
                        fail = Some(Violation {
                            key: format!("C18:{}:internal-error", tag),
                            detail: format!("driving the pool to its limit reported {:?} (all reports: {:?})", e, errors),
                        });
                    }
                }
                if w.fatal.is_none() {
                    // at the very edge a statement may still fit: ending normally is fine there
                    let edge_ok = tag == "limit:statement-at-full-stack" && errors.is_empty();
                    if !oom && !(budget_ok && o.budget_hit) && !edge_ok {
                        fail = Some(Violation {
                            key: format!("C18:{}:no-out-of-memory", tag),
                            detail: format!("expected ?OUT OF MEMORY, got errors {:?}, budget_hit={}, last output {:?}", errors, o.budget_hit, w.tail),
                        });
                    }
                }
                if fail.is_none() && w.fatal.is_none() && tag == "limit:variables-then-zero" {
                    // at the limit: setting slots back to 0 must work and free them
                    let io = LineIo {
                        max_instr: 8_000_000,
                        ..Default::default()
                    };
                    w.quiet = false;
                    let o = w.line("FOR I=0 TO 32767:A(I)=0:B(I)=0:C(I)=0:NEXT:PRINT \"ZEROED\"", &io);
                    let e1 = line_errors(&w, &o);
                    let o2 = w.line("FOR I=0 TO 30000:A(I)=2:B(I)=2:NEXT:PRINT \"REFILLED\"", &io);
                    let e2 = line_errors(&w, &o2);
                    if !e1.is_empty() || !e2.is_empty() {
                        fail = Some(Violation {
                            key: "C18:limit:variables-then-zero:zeroing-does-not-free".into(),
                            detail: format!("after the pool was full: zeroing gave {:?}, refilling 60 002 slots gave {:?}", e1, e2),
                        });
                    } else {
                        w.stats.bump("c18.zeroed_at_limit");
                    }
                }
                let mut prog = prog;
                if fail.is_none() && w.fatal.is_none() && (tag == "limit:code" || tag == "limit:data") && variant % 2 == 1 {
                    // recovery: delete the last lines by typing their numbers until the program fits
                    w.stats.bump("c18.limit.recovery_by_deleting_lines");
                    for _ in 0..25 {
                        if let Some(l) = prog.pop() {
                            let num = l.split(' ').next().unwrap_or("").to_string();
                            w.line(&num, &LineIo::budget(100));
                        }
                    }
                    w.quiet = true;
                    let o = w.line("RUN", &io);
                    let errors = line_errors(&w, &o);
                    if !errors.is_empty() {
                        fail = Some(Violation {
                            key: format!("C18:{}:no-recovery", tag),
                            detail: format!("after deleting 25 lines the program fits, yet RUN gave {:?}", errors),
                        });
                    }
                }
                if fail.is_none() && w.fatal.is_none() {
                    fail = aftermath(&mut w, &prog, *then_new, self.entropy, tag);
                    if fail.is_none() {
                        w.stats.bump("c18.aftermath_ok");
                    }
                }
                v.nontrivial = true;
            }
            Kind::ZeroFrees { ty, zero } => {
                let (sfx, one, zeros): (&str, &str, &[&str]) = match ty % 4 {
                    0 => ("", "1", &["0", "A(I)*0", "A(I)-1", "0!", "INT(.5)"]),
                    1 => ("%", "1", &["0", "A%(I)*.25", "INT(.5)", "A%(I)-1", "A%(I)\\2"]),
                    2 => ("$", "\"x\"", &["\"\"", "LEFT$(A$(I),0)", "MID$(A$(I),1,0)", "STRING$(0,65)", "RIGHT$(A$(I),0)"]),
                    _ => ("#", "1.5#", &["0", "0#", "A#(I)-1.5#", "A#(I)*0"]),
                };
                let z = zeros[(*zero as usize) % zeros.len()];
                let zb = z.replace("A", "B");
                let prog = vec![
                    format!("10 DIM A{s}(30000),B{s}(30000),C{s}(30000)", s = sfx),
                    format!("20 FOR I=0 TO 30000:A{s}(I)={o}:NEXT", s = sfx, o = one),
                    format!("30 FOR I=0 TO 30000:A{s}(I)={z}:NEXT", s = sfx, z = z),
                    format!("40 FOR I=0 TO 30000:B{s}(I)={o}:NEXT", s = sfx, o = one),
                    format!("50 FOR I=0 TO 30000:B{s}(I)={z}:NEXT", s = sfx, z = zb),
                    format!("60 FOR I=0 TO 30000:C{s}(I)={o}:NEXT", s = sfx, o = one),
                    "70 PRINT \"DONE\"".to_string(),
                ];
                enter_program(&mut w, &prog);
                w.quiet = true;
                let io = LineIo {
                    max_instr: 8_000_000,
                    ..Default::default()
                };
                let o = w.line("RUN", &io);
                let errors = line_errors(&w, &o);
                w.stats.bump("c18.zero_frees");
                if let Some(e) = errors.iter().find(|e| e.starts_with("?OUT OF MEMORY")) {
                    fail = Some(Violation {
                        key: format!("C18:zero-does-not-free:{}", ["single", "integer", "string", "double"][(*ty as usize) % 4]),
                        detail: format!("{} (at most 30 001 slots are ever non-default; program {:?})", e, prog),
                    });
                } else if !errors.is_empty() {
                    v.discarded = Some(format!("zeroing program failed with {}", errors[0]));
                } else if !w.tail.iter().any(|s| s.contains("DONE")) && w.fatal.is_none() {
                    fail = Some(Violation {
                        key: "C18:loop-did-not-complete:zero-frees".into(),
                        detail: format!("no error, no DONE (budget_hit={})", o.budget_hit),
                    });
                }
                v.nontrivial = true;
            }
        }
        if let Some(f) = &w.fatal {
            fail = Some(fatal_violation("C18", f));
        }
        v.violation = fail;
        v.stats.merge(&w.stats);
        v.instr = w.total_instr;
        v.sim_us = w.sim_us;
        v.executions = 1;
        v.fingerprint = w.log_hash ^ w.quiet_hash;
        v
    }

    fn shrink(&self) -> Vec<Box<dyn Case>> {
        let mut out: Vec<Box<dyn Case>> = vec![];
        if let Kind::Loop { fams, outer, full } = &self.kind {
            if fams.len() > 1 {
                for i in 0..fams.len() {
                    let mut f = fams.clone();
                    f.remove(i);
                    out.push(Box::new(C18Case {
                        kind: Kind::Loop {
                            fams: f,
                            outer: *outer,
                            full: *full,
                        },
                        ..self.clone()
                    }));
                }
            }
            if *outer != Outer::For && *outer != Outer::DirectFor {
                out.push(Box::new(C18Case {
                    kind: Kind::Loop {
                        fams: fams.clone(),
                        outer: Outer::For,
                        full: *full,
                    },
                    ..self.clone()
                }));
            }
        }
        if self.sched_variant != 0 {
            out.push(Box::new(C18Case {
                sched_variant: 0,
                ..self.clone()
            }));
        }
        out
    }

    fn describe(&self) -> Json {
        let b = obj().set("quantum_schedule_variant", self.sched_variant);
        match &self.kind {
            Kind::Loop { fams, outer, full } => {
                let bl = build_loop(fams, *outer);
                b.set("kind", "C18 no-residue loop: program typed, RUN, probe sizes at two STOPs 1000 iterations apart, CONT to the end when sizes grew or the case is a full run")
                    .set("program", program_json(&bl.program))
                    .set("direct_loop", bl.direct.clone().unwrap_or_default())
                    .set("replies_cycled", bl.replies.clone())
                    .set("outer", format!("{:?}", outer))
                    .set("full_run", *full)
                    .build()
            }
            Kind::SelfRestart { variant } => b.set("kind", "C18 program restarting itself with RUN from inside GOSUB/FOR 70 000 times").set("variant", *variant as i64).build(),
            Kind::RepeatDirect { variant } => b.set("kind", "C18 one direct line typed 70 000 times").set("variant", *variant as i64).build(),
            Kind::RepeatInterrupted { variant } => b.set("kind", "C18 one direct-mode loop / INPUT typed and broken by Ctrl-C 25 000 times, then a recursion 65 000 deep").set("variant", *variant as i64).build(),
            Kind::Limit { which, variant, then_new } => {
                let (prog, tag, _) = limit_program(*which, *variant);
                let shown: Vec<String> = prog.iter().take(4).map(|l| l.chars().take(120).collect()).collect();
                b.set("kind", "C18 pool driven past its limit, then canary, listing, NEW/CLEAR + small program vs fresh runtime")
                    .set("limit", tag)
                    .set("program_head", program_json(&shown))
                    .set("program_lines", prog.len())
                    .set("then", if *then_new { "NEW" } else { "CLEAR" })
                    .build()
            }
            Kind::ZeroFrees { ty, zero } => b
                .set("kind", "C18 three arrays of 30 001 elements filled and zeroed in turn (never more than 30 001 non-default slots)")
                .set("type", *ty as i64)
                .set("zero_expression", *zero as i64)
                .build(),
        }
    }
}

impl Property for C18 {
    fn id(&self) -> &'static str {
        "C18"
    }
    fn generate(&self, rng: &mut Rng, _tier: Tier) -> Box<dyn Case> {
        let kind = match rng.below(100) {
            0..=84 => {
                let outer = *rng.pick(&[Outer::For, Outer::For, Outer::GotoCounter, Outer::GotoCounter, Outer::While, Outer::GosubWrapped, Outer::DirectFor]);
                let pool: &[Fam] = if outer == Outer::DirectFor { ONE_LINERS } else { ALL_FAMS };
                let n = 1 + rng.below(4) as usize;
                let mut fams: Vec<(Fam, u32)> = vec![];
                for _ in 0..n {
                    let f = *rng.pick(pool);
                    if f == Fam::Input && fams.iter().any(|(x, _)| *x == Fam::Input) {
                        continue;
                    }
                    fams.push((f, rng.below(1000) as u32));
                }
                if fams.is_empty() {
                    fams.push((Fam::Let, 0));
                }
                Kind::Loop {
                    fams,
                    outer,
                    full: rng.pct(10),
                }
            }
            85..=86 => Kind::SelfRestart { variant: rng.below(3) as u32 },
            87 => Kind::RepeatDirect { variant: rng.below(10) as u32 },
            88 => Kind::RepeatInterrupted { variant: rng.below(5) as u32 },
            89..=95 => Kind::Limit {
                which: rng.below(8) as u32,
                variant: rng.below(12) as u32,
                then_new: rng.pct(50),
            },
            _ => Kind::ZeroFrees {
                ty: rng.below(4) as u32,
                zero: rng.below(20) as u32,
            },
        };
        Box::new(C18Case {
            kind,
            sched_variant: rng.usize(3),
            entropy: rng.next_u64(),
        })
    }
    fn budget(&self, tier: Tier) -> Budget {
        match tier {
            Tier::Quick => Budget {
                runs: 2_500,
                watchdog_s: 120,
            },
            Tier::Thorough => Budget {
                runs: 60_000,
                watchdog_s: 120,
            },
        }
    }
    fn rule(&self) -> &'static str {
        "one evaluation = (85%) a loop body of 1-4 statement families (PRINT lists, LET with temporaries, SWAP, MID$=, READ+RESTORE, IF/ELSE, ON..GOSUB and ON..GOTO with the selector in and out of range, completed inner FOR / WHILE, GOSUB incl. RETURN out of an open FOR, nested FN calls, INPUT with REDO cycles, DIM+ERASE, forward GOTO, INKEY$) wrapped as FOR / GOTO-counter / WHILE loop, subroutine called in a loop (300 000 iterations; sizes probed at two STOPs 1000 iterations apart, the run is continued to the end when anything grew and in 10% of the cases regardless) or typed as a 70 000-iteration direct-mode loop; (4%) a program restarting itself with RUN from inside GOSUB/FOR 70 000 times, one direct line typed 70 000 times, or a direct-mode loop / INPUT broken by Ctrl-C 25 000 times; (7%) a pool driven past 64K (GOSUB recursion, FN recursion, FOR re-entered, > 65 535 variables / DATA values / opcodes, INPUT / nested FN calls / nested FOR+READ executed with 0-20 free stack slots), then canary, listing, NEW or CLEAR and a small program compared with a fresh runtime; (4%) three arrays of 30 001 elements filled and zeroed in turn; distinct = distinct API/event log fingerprint"
    }
    fn assumptions(&self) -> Vec<&'static str> {
        vec![
            "a loop body that fails with another error than OUT OF MEMORY is discarded (the property speaks of terminating sequences)",
            "the probe hook (stack / variable / array / code sizes at a STOP) only decides whether a run may end early; every reported residue is an OUT OF MEMORY of the real interpreter",
            "growth too slow to exhaust a pool within 300 000 iterations is counted (c18.growth_not_confirmed), not reported",
            "an endlessly re-entered FOR may loop for ever instead of running out of memory (a FOR on an active variable may reuse its frame)",
            "abandoned inner FOR loops are part of the limits clause, not of the no-residue clause, and are not put into loop bodies",
        ]
    }
    fn required_probes(&self) -> Vec<&'static str> {
        vec![
            "c18.full_runs",
            "c18.fast_path_no_growth",
            "c18.self_restart",
            "c18.repeat_direct",
            "c18.repeat_interrupted_direct",
            "c18.limit.gosub_recursion",
            "c18.limit.fn_recursion",
            "c18.limit.for_reentered",
            "c18.limit.variables",
            "c18.limit.data",
            "c18.limit.code",
            "c18.limit.variables_then_zero",
            "c18.limit.statement_at_full_stack",
            "c18.oom_reached",
            "c18.aftermath_ok",
            "c18.zero_frees",
            "c18.fam.on_gosub",
            "c18.fam.gosub",
            "c18.fam.input",
            "c18.outer.direct_for",
            "c18.outer.gosub_wrapped",
        ]
    }
}
