//! C14 - RENUM preserves the program and rewrites every reference, or changes nothing.
//!
//! RENUM is treated as a transaction on the shared program store: a generated,
//! link-clean program (every referencing statement form, decoys, non-ASCII text
//! in front of references, line 0, lines near 65529) is typed into the real
//! runtime, optionally a `get_listing()` snapshot is held, `RENUM <args>` is
//! typed (valid, overflowing, reordering, non-injective and unparsable triples;
//! also RENUM from inside a program and on a program with a compile error).
//! Oracle, literally the property's disjunction: EITHER an error was reported
//! and the listing is byte-identical to before, OR no error was reported and
//! the listing equals the model renumbering computed on the generator's AST.
//! On success both programs are run (twin, entropy aligned) and the transcripts
//! and final variables must agree modulo the line map. A held snapshot must
//! still render the old text.

use crate::ast::*;
use crate::framework::*;
use crate::gen::{gen_program, map_targets, walk_stmts, GenCfg};
use crate::json::{obj, Json};
use crate::prng::Rng;
use crate::props::c03::fatal_violation;
use crate::refbasic::Ref;
use crate::session::*;
use crate::world::*;
use std::collections::BTreeMap;

pub struct C14;

#[derive(Clone, Copy, Debug, PartialEq)]
enum Mode {
    Direct,
    InProgram,
    CompileError,
}

#[derive(Clone)]
struct C14Case {
    prog: Program,
    new: Option<u32>,
    old: Option<u32>,
    step: Option<u32>,
    mode: Mode,
    snapshot: bool,
    /// a valid partial RENUM (new, old, step) typed first: the judged RENUM is the second in a row
    pre: Option<(u32, u32, u32)>,
    replies: Vec<String>,
    sched_variant: usize,
    entropy: u64,
}

fn sched(v: usize) -> Sched {
    match v % 3 {
        0 => Sched::fixed(DEFAULT_Q),
        1 => Sched::fixed(1),
        _ => Sched::fixed(11),
    }
}

fn renum_text(new: Option<u32>, old: Option<u32>, step: Option<u32>) -> String {
    let f = |x: Option<u32>| x.map(|n| n.to_string()).unwrap_or_default();
    match (new, old, step) {
        (None, None, None) => "RENUM".to_string(),
        (n, None, None) => format!("RENUM {}", f(n)),
        (n, o, None) => format!("RENUM {},{}", f(n), f(o)),
        (n, o, s) => format!("RENUM {},{},{}", f(n), f(o), f(s)),
    }
}

fn form_name(new: Option<u32>, old: Option<u32>, step: Option<u32>) -> &'static str {
    match (new.is_some(), old.is_some(), step.is_some()) {
        (false, false, false) => "c14.form.bare",
        (true, false, false) => "c14.form.n",
        (true, true, false) => "c14.form.n_o",
        (true, true, true) => "c14.form.n_o_s",
        (false, true, false) => "c14.form._o",
        (false, false, true) => "c14.form.__s",
        (true, false, true) => "c14.form.n__s",
        (false, true, true) => "c14.form._o_s",
    }
}

/// The renumbering the manual defines, applied to the AST. `None` when an operand or a
/// resulting number is not a line number at all (> 65529).
pub fn model_renum(p: &Program, new: Option<u32>, old: Option<u32>, step: Option<u32>) -> Option<(Program, BTreeMap<u16, u16>)> {
    let new = new.unwrap_or(10);
    let old = old.unwrap_or(0);
    let step = step.unwrap_or(10);
    if new > 65529 || old > 65529 || step > 65529 {
        return None;
    }
    let mut q = p.clone();
    let mut map = BTreeMap::new();
    let mut next = new;
    for l in q.lines.iter_mut() {
        if (l.num as u32) >= old {
            if next > 65529 {
                return None;
            }
            map.insert(l.num, next as u16);
            l.num = next as u16;
            next += step;
        } else {
            map.insert(l.num, l.num);
        }
    }
    Some((q, map))
}

fn ref_kinds(stmts: &[Stmt]) -> Vec<&'static str> {
    let mut k: Vec<&'static str> = vec![];
    walk_stmts(stmts, &mut |s| {
        let name = match s {
            Stmt::Goto(_) => Some("Goto"),
            Stmt::Gosub(_) => Some("Gosub"),
            Stmt::OnGoto(..) => Some("OnGoto"),
            Stmt::OnGosub(..) => Some("OnGosub"),
            Stmt::Restore(Some(_)) => Some("Restore"),
            Stmt::Run(Some(_)) => Some("Run"),
            Stmt::ListCmd(a, b) if a.is_some() || b.is_some() => Some("List"),
            Stmt::DeleteCmd(a, b) if a.is_some() || b.is_some() => Some("Delete"),
            Stmt::FromCmd(false, _) => Some("List"),
            Stmt::FromCmd(true, _) => Some("Delete"),
            Stmt::ListCmd(..) => Some("BareList"),
            Stmt::DeleteCmd(..) => Some("BareDelete"),
            Stmt::Restore(None) => Some("BareRestore"),
            Stmt::Run(None) => Some("BareRun"),
            Stmt::If { then, els, .. } => {
                if matches!(then, Branch::Line(_)) || matches!(els, Some(Branch::Line(_))) {
                    Some("IfLine")
                } else {
                    None
                }
            }
            _ => None,
        };
        if let Some(n) = name {
            if !k.contains(&n) {
                k.push(n);
            }
        }
    });
    k.sort();
    k
}

fn map_numbers(toks: &[Tok], map: &BTreeMap<u16, u16>) -> Vec<Tok> {
    let m = |n: u16| map.get(&n).copied().unwrap_or(n);
    toks.iter()
        .map(|t| match t {
            Tok::Err(e) => {
                if let Some(pos) = e.find(" IN ") {
                    let digits: String = e[pos + 4..].chars().take_while(|c| c.is_ascii_digit()).collect();
                    if let Ok(n) = digits.parse::<u16>() {
                        return Tok::Err(format!("{} IN {}{}", &e[..pos], m(n), &e[pos + 4 + digits.len()..]));
                    }
                }
                Tok::Err(e.clone())
            }
            Tok::Out(s) => {
                // trace tokens "[n]"
                let mut out = String::new();
                let cs: Vec<char> = s.chars().collect();
                let mut i = 0;
                while i < cs.len() {
                    if cs[i] == '[' {
                        let mut j = i + 1;
                        while j < cs.len() && cs[j].is_ascii_digit() {
                            j += 1;
                        }
                        if j > i + 1 && j < cs.len() && cs[j] == ']' {
                            let d: String = cs[i + 1..j].iter().collect();
                            if let Ok(n) = d.parse::<u16>() {
                                out.push_str(&format!("[{}]", m(n)));
                                i = j + 1;
                                continue;
                            }
                        }
                    }
                    out.push(cs[i]);
                    i += 1;
                }
                Tok::Out(out)
            }
            o => o.clone(),
        })
        .collect()
}

impl C14Case {
    /// RENUM can only be made the first program line when there is room in front of it
    fn mode(&self) -> Mode {
        if self.mode == Mode::InProgram && self.prog.lines.first().map(|l| l.num).unwrap_or(0) == 0 {
            Mode::Direct
        } else {
            self.mode
        }
    }

    /// the program as typed: in the two special modes one extra line is added
    fn typed_program(&self) -> Program {
        let mut p = self.prog.clone();
        match self.mode() {
            Mode::Direct => {}
            Mode::InProgram => {
                // first line of the program executes RENUM
                let first = p.lines.first().map(|l| l.num).unwrap_or(10);
                if first > 0 {
                    p.lines.insert(
                        0,
                        Line {
                            num: first - 1,
                            stmts: vec![Stmt::Raw(renum_text(self.new, self.old, self.step))],
                        },
                    );
                    map_targets(&mut p, &mut |t| {
                        if let Target::L(i) = t {
                            *i += 1;
                        }
                    });
                }
            }
            Mode::CompileError => {
                let last = p.lines.last().map(|l| l.num).unwrap_or(10);
                if last < 65500 {
                    if self.entropy % 3 != 0 {
                        // a reference to a line that does not exist
                        let absent = last + 7;
                        p.lines.push(Line {
                            num: last + 3,
                            stmts: vec![Stmt::Goto(Target::Abs(absent))],
                        });
                    }
                    if self.entropy % 3 != 1 {
                        // a line that does not parse
                        p.lines.push(Line {
                            num: last + 5,
                            stmts: vec![Stmt::Raw("PRINT (".into())],
                        });
                    }
                }
            }
        }
        p
    }
}

impl Case for C14Case {
    fn execute(&self) -> Verdict {
        let mut v = Verdict::default();
        let mut typed = self.typed_program();
        let mut lines = render_program(&typed);
        let mut w = World::booted(sched(self.sched_variant), self.entropy, false);
        enter_program(&mut w, &lines);
        let mut l0 = w.listing_text();
        let l0_lines: Vec<String> = l0.lines().map(|s| s.to_string()).collect();
        let finish = |v: &mut Verdict, w: &World| {
            v.stats.merge(&w.stats);
            v.instr += w.total_instr;
            v.sim_us += w.sim_us;
            v.executions += 1;
            v.fingerprint ^= w.log_hash;
        };
        if let Some(f) = &w.fatal {
            v.violation = Some(fatal_violation("C14", f));
            finish(&mut v, &w);
            return v;
        }
        if l0_lines != lines {
            v.discarded = Some("listing of the generated program is not a fixed point".into());
            finish(&mut v, &w);
            return v;
        }
        if let (Some((n, o, st)), Mode::Direct) = (self.pre, self.mode()) {
            // a first, partial RENUM that the model accepts; from here on the program is its result
            // (the result must be typeable for the twin: no line beyond the 1024-character limit)
            let valid = model_renum(&typed, Some(n), Some(o), Some(st))
                .filter(|(q, _)| q.lines.windows(2).all(|x| x[0].num < x[1].num))
                .filter(|(q, _)| render_program(q).iter().all(|l| l.chars().count() <= 1000));
            if let Some((q, _)) = valid {
                let text = renum_text(Some(n), Some(o), Some(st));
                let o1 = w.line(&text, &LineIo::budget(2000));
                let errored = w.events[o1.ev_start..o1.ev_end].iter().any(|e| matches!(e, Ev::Errors(_) | Ev::TermError(_)));
                let now = w.listing_text();
                if let Some(f) = &w.fatal {
                    v.violation = Some(fatal_violation("C14", f));
                    finish(&mut v, &w);
                    return v;
                }
                let expected = render_program(&q);
                let got: Vec<String> = now.lines().map(|s| s.to_string()).collect();
                if errored && now == l0 {
                    w.stats.bump("c14.first_of_two_refused");
                } else if errored || got != expected {
                    let i = (0..got.len().min(expected.len())).find(|i| got[*i] != expected[*i]).unwrap_or(0);
                    v.violation = Some(Violation {
                        key: if errored { "C14:failed-but-changed".into() } else { "C14:renumbered:text:first-of-two".into() },
                        detail: format!("{:?} (first of two): expected {:?} got {:?}", text, expected.get(i), got.get(i)),
                    });
                    finish(&mut v, &w);
                    return v;
                } else {
                    w.stats.bump("c14.second_renum_in_a_row");
                    typed = q;
                    lines = expected;
                    l0 = now;
                }
            }
        }
        if self.snapshot {
            w.snap_take();
            w.stats.bump("c14.snapshot_held");
        }
        w.stats.bump(form_name(self.new, self.old, self.step));
        let text = renum_text(self.new, self.old, self.step);
        let o = match self.mode() {
            Mode::InProgram => {
                w.stats.bump("c14.mode.in_program");
                w.line("RUN", &LineIo::budget(2000))
            }
            Mode::CompileError => {
                w.stats.bump("c14.mode.compile_error");
                w.line(&text, &LineIo::budget(2000))
            }
            Mode::Direct => w.line(&text, &LineIo::budget(2000)),
        };
        let evs = w.events[o.ev_start..o.ev_end].to_vec();
        let errored = evs.iter().any(|e| matches!(e, Ev::Errors(_) | Ev::TermError(_)));
        let l1 = w.listing_text();
        if self.snapshot {
            w.snap_check(0);
        }
        if let Some(f) = &w.fatal {
            v.violation = Some(fatal_violation("C14", f));
            finish(&mut v, &w);
            return v;
        }
        let model = model_renum(&typed, self.new, self.old, self.step);
        if errored {
            if l1 != l0 {
                v.violation = Some(Violation {
                    key: "C14:failed-but-changed".into(),
                    detail: format!("{:?} reported an error but the listing changed from {:?} to {:?}", text, l0, l1),
                });
            } else {
                w.stats.bump("c14.failed_unchanged");
                // visibility only: a triple the manual makes valid was refused
                if let Some((q, _)) = &model {
                    let nums: Vec<u16> = q.lines.iter().map(|l| l.num).collect();
                    let increasing = nums.windows(2).all(|x| x[0] < x[1]);
                    if increasing && self.mode() == Mode::Direct {
                        w.stats.bump("c14.valid_triple_refused");
                    }
                }
            }
            v.nontrivial = true;
            finish(&mut v, &w);
            return v;
        }
        // no error reported: the listing must be the model renumbering
        let (q, map) = match model {
            Some(m) => m,
            None => {
                v.violation = Some(Violation {
                    key: "C14:no-error-for-impossible-renumbering".into(),
                    detail: format!("{:?}: operands or resulting numbers exceed 65529, yet no error was reported; listing now {:?}", text, l1),
                });
                finish(&mut v, &w);
                return v;
            }
        };
        let expected = render_program(&q);
        let got: Vec<String> = l1.lines().map(|s| s.to_string()).collect();
        if self.mode() == Mode::CompileError {
            // RENUM went through on a program that does not compile: a reference to a line that did
            // not exist must not have become a reference to a line that does
            let mut live: Option<u16> = None;
            for l in &typed.lines {
                walk_stmts(&l.stmts, &mut |st| {
                    if let Stmt::Goto(Target::Abs(n)) = st {
                        if !typed.lines.iter().any(|x| x.num == *n) && q.lines.iter().any(|x| x.num == *n) {
                            live = Some(*n);
                        }
                    }
                });
            }
            if let Some(n) = live {
                v.violation = Some(Violation {
                    key: "C14:dangling-reference-became-live".into(),
                    detail: format!("{:?} on a program with a reference to the missing line {}: no error, and line {} exists afterwards; listing {:?}", text, n, n, got),
                });
                finish(&mut v, &w);
                return v;
            }
        }
        if got != expected {
            let key = if got.len() != expected.len() {
                "C14:renumbered:line-count".to_string()
            } else {
                let i = (0..got.len()).find(|i| got[*i] != expected[*i]).unwrap_or(0);
                let num = |s: &str| s.split(' ').next().unwrap_or("").to_string();
                if num(&got[i]) != num(&expected[i]) {
                    "C14:renumbered:line-number".to_string()
                } else {
                    format!("C14:renumbered:text:{}", ref_kinds(&q.lines[i].stmts).join("+"))
                }
            };
            let i = (0..got.len().min(expected.len())).find(|i| got[*i] != expected[*i]);
            v.violation = Some(Violation {
                key,
                detail: format!(
                    "{:?} reported no error; first differing line: expected {:?} got {:?} ({} lines expected, {} listed)",
                    text,
                    i.map(|i| expected[i].clone()),
                    i.map(|i| got[i].clone()),
                    expected.len(),
                    got.len()
                ),
            });
            finish(&mut v, &w);
            return v;
        }
        // the store must be keyed by the new numbers, not only iterate in the right order
        if !expected.is_empty() {
            let picks = [0usize, expected.len() / 2, expected.len() - 1];
            for (k, &i) in picks.iter().enumerate() {
                let num = q.lines[i].num;
                let looked = w.tab(num as usize);
                let listed: Vec<Tok> = if k == 1 {
                    let o = w.line(&format!("LIST {}", num), &LineIo::budget(500));
                    tokens(&w.events[o.ev_start..o.ev_end])
                } else {
                    vec![Tok::List(expected[i].clone())]
                };
                if (looked.as_deref() != Some(expected[i].as_str()) || listed != vec![Tok::List(expected[i].clone())]) && w.fatal.is_none() {
                    v.violation = Some(Violation {
                        key: "C14:renumbered:lookup-by-number".into(),
                        detail: format!("{:?}: line {} is listed as {:?} but looking it up by number gives {:?} / LIST {} gives {:?}", text, num, expected[i], looked, num, listed),
                    });
                    finish(&mut v, &w);
                    return v;
                }
            }
            w.stats.bump("c14.lookup_by_new_number");
        }
        w.stats.bump("c14.success");
        if map.iter().any(|(a, b)| a != b) {
            w.stats.bump("c14.success_with_changed_numbers");
            for l in &typed.lines {
                for k in ref_kinds(&l.stmts) {
                    w.stats.bump(match k {
                        "Goto" => "c14.ref.goto",
                        "Gosub" => "c14.ref.gosub",
                        "OnGoto" => "c14.ref.on_goto",
                        "OnGosub" => "c14.ref.on_gosub",
                        "Restore" => "c14.ref.restore",
                        "Run" => "c14.ref.run",
                        "List" => "c14.ref.list",
                        "Delete" => "c14.ref.delete",
                        "IfLine" => "c14.ref.if_line",
                        _ => "c14.ref.bare_command",
                    });
                }
            }
        }
        v.nontrivial = true;
        if self.mode() != Mode::Direct {
            finish(&mut v, &w);
            return v;
        }
        // behaviour: the original program on a fresh twin vs the renumbered one here
        // CONT after the END in front of the unreachable command lines would run them
        let mut has_commands = false;
        for l in &self.prog.lines {
            walk_stmts(&l.stmts, &mut |s| {
                if matches!(s, Stmt::ListCmd(..) | Stmt::DeleteCmd(..) | Stmt::FromCmd(..) | Stmt::Run(_)) {
                    has_commands = true;
                }
            });
        }
        let conts = if has_commands { 0 } else { 6 };
        let mut a = World::booted(sched(self.sched_variant + 1), self.entropy, false);
        enter_program(&mut a, &lines);
        basic::verif::set_entropy(self.entropy ^ 0x1414);
        let ca = run_to_completion(&mut a, "RUN", &self.replies, &[], &Plan::None, None, 20_000, conts);
        let pa = run_probes(&mut a, &probe_lines(&self.prog));
        basic::verif::set_entropy(self.entropy ^ 0x1414);
        let cb = run_to_completion(&mut w, "RUN", &self.replies, &[], &Plan::None, None, 20_000, conts);
        let pb = run_probes(&mut w, &probe_lines(&self.prog));
        finish(&mut v, &a);
        if let Some(f) = a.fatal.as_ref().or(w.fatal.as_ref()) {
            v.violation = Some(fatal_violation("C14", f));
        } else if ca.budget_hit || cb.budget_hit || ca.abandoned_input || cb.abandoned_input {
            if (ca.budget_hit || ca.abandoned_input) != (cb.budget_hit || cb.abandoned_input) {
                v.violation = Some(Violation {
                    key: "C14:behaviour:termination-differs".into(),
                    detail: "one of original / renumbered program finished, the other did not".into(),
                });
            } else {
                v.discarded = Some("program did not finish within the budget".into());
            }
        } else {
            let ta = map_numbers(&ca.toks, &map);
            if ta != cb.toks {
                v.violation = Some(Violation {
                    key: "C14:behaviour:transcript".into(),
                    detail: format!("{:?}: {} (original program, line numbers mapped, is 'expected')", text, first_diff(&ta, &cb.toks)),
                });
            } else if pa != pb {
                v.violation = Some(Violation {
                    key: "C14:behaviour:variables".into(),
                    detail: first_diff(&pa, &pb),
                });
            } else {
                w.stats.bump("c14.behaviour_compared");
                // typing a renumbered line's number replaces that line, it does not add a second one
                if let Some(mid) = q.lines.get(q.lines.len() / 2) {
                    w.line(&format!("{} REM EDITED", mid.num), &LineIo::budget(200));
                    let now: Vec<String> = w.listing_text().lines().map(|s| s.to_string()).collect();
                    let mut want = expected.clone();
                    let at = q.lines.len() / 2;
                    want[at] = format!("{} REM EDITED", mid.num);
                    if now != want && w.fatal.is_none() {
                        v.violation = Some(Violation {
                            key: "C14:renumbered:edit-by-new-number".into(),
                            detail: format!("after {:?}, typing `{} REM EDITED` gave a listing of {} lines (expected {}): {:?}", text, mid.num, now.len(), want.len(), now),
                        });
                    }
                }
            }
        }
        finish(&mut v, &w);
        v
    }

    fn shrink(&self) -> Vec<Box<dyn Case>> {
        let mut out: Vec<Box<dyn Case>> = vec![];
        if self.snapshot {
            out.push(Box::new(C14Case {
                snapshot: false,
                ..self.clone()
            }));
        }
        for p in shrink_program(&self.prog) {
            out.push(Box::new(C14Case {
                prog: p,
                ..self.clone()
            }));
        }
        if self.pre.is_some() {
            out.push(Box::new(C14Case {
                pre: None,
                ..self.clone()
            }));
        }
        if self.step.is_some() {
            out.push(Box::new(C14Case {
                step: None,
                ..self.clone()
            }));
        }
        if self.old.is_some() {
            out.push(Box::new(C14Case {
                old: None,
                ..self.clone()
            }));
        }
        if self.new.is_some() {
            out.push(Box::new(C14Case {
                new: None,
                ..self.clone()
            }));
        }
        if self.sched_variant != 0 {
            out.push(Box::new(C14Case {
                sched_variant: 0,
                ..self.clone()
            }));
        }
        out
    }

    fn describe(&self) -> Json {
        obj()
            .set("kind", "C14 RENUM as a transaction: program typed, (snapshot held,) RENUM typed, listing compared with the model renumbering or required unchanged, then both programs run")
            .set("program", program_json(&render_program(&self.typed_program())))
            .set(
                "command",
                match self.mode() {
                    Mode::InProgram => format!("RUN (the first program line is {})", renum_text(self.new, self.old, self.step)),
                    _ => renum_text(self.new, self.old, self.step),
                },
            )
            .set("mode", format!("{:?}", self.mode()))
            .set("snapshot_held_across", self.snapshot)
            .set("replies", self.replies.clone())
            .set("quantum_schedule_variant", self.sched_variant)
            .set("entropy", self.entropy)
            .set("first_partial_renum", match self.pre { Some((n, o, st)) => format!("RENUM {},{},{}", n, o, st), None => "none".to_string() })
            .build()
    }
}

/// Decorate a generated program for RENUM: non-ASCII text in front of references and an
/// unreachable tail carrying RUN n / LIST / DELETE operands.
fn decorate(rng: &mut Rng, p: &mut Program) -> (bool, bool) {
    let mut nonascii = false;
    for l in p.lines.iter_mut() {
        if rng.pct(15) {
            let s = *rng.pick(&["日本é", "é", "ü→", "GOTO 10 é"]);
            l.stmts.insert(
                0,
                Stmt::Let {
                    kw: false,
                    target: LVal::scalar("Z$"),
                    expr: Expr::Str(s.to_string()),
                },
            );
            nonascii = true;
        }
        if rng.pct(12) {
            // numeric literals of every spelling in front of references (their listed width matters
            // to the splice columns); all are fixed points of listing
            let s = *rng.pick(&["Z=&17", "Z=&H1F", "Z=&7:Z=&17", "Z=1E+10", "Z=1.5D0", "Z#=1#", "Z=1!", "Z%=&7", "Z=&17+&H1F-&7"]);
            l.stmts.insert(0, Stmt::Raw(s.to_string()));
        }
    }
    // a line at the 1024-character limit whose reference gains digits when renumbered
    if rng.pct(4) && p.lines.len() >= 2 {
        let last = p.lines.len() - 1;
        let t = rng.usize(p.lines.len());
        let num = p.lines[last].num;
        if num < 65000 && !matches!(p.lines[last].stmts.last(), Some(Stmt::If { .. }) | Some(Stmt::Rem(..))) {
            let head = format!("{} {}:GOTO {}:REM ", num + 2, "END", p.lines[t].num);
            let pad = (1024usize - rng.usize(3)).saturating_sub(head.chars().count());
            p.lines.push(Line {
                num: num + 2,
                stmts: vec![Stmt::End, Stmt::Goto(Target::L(t)), Stmt::Rem("x".repeat(pad), false)],
            });
        }
    }
    let mut tail = false;
    let n = p.lines.len();
    if n > 0 && rng.pct(60) {
        let mut num = p.lines[n - 1].num as u32;
        let step = *rng.pick(&[1u32, 2, 10]);
        let k = 1 + rng.usize(5);
        if num + step * (k as u32 + 1) <= 65529 {
            num += step;
            p.lines.push(Line {
                num: num as u16,
                stmts: vec![Stmt::End],
            });
            for _ in 0..k {
                num += step;
                let mut stmts = vec![];
                for _ in 0..(1 + rng.usize(2)) {
                    let a = rng.usize(n);
                    let b = rng.usize(n);
                    let (lo, hi) = (a.min(b), a.max(b));
                    stmts.push(match rng.below(12) {
                        0 => Stmt::Run(Some(Target::L(a))),
                        1 => Stmt::ListCmd(Some(Target::L(a)), None),
                        2 => Stmt::ListCmd(Some(Target::L(lo)), Some(Target::L(hi))),
                        3 => Stmt::ListCmd(None, Some(Target::L(a))),
                        4 => Stmt::FromCmd(false, Target::L(a)),
                        5 => Stmt::DeleteCmd(Some(Target::L(a)), None),
                        6 => Stmt::DeleteCmd(Some(Target::L(lo)), Some(Target::L(hi))),
                        7 => Stmt::DeleteCmd(None, Some(Target::L(a))),
                        8 => Stmt::FromCmd(true, Target::L(a)),
                        9 => Stmt::ListCmd(None, None),
                        10 => Stmt::Restore(None),
                        _ => Stmt::Run(None),
                    });
                }
                p.lines.push(Line { num: num as u16, stmts });
            }
            tail = true;
        }
    }
    (nonascii, tail)
}

impl Property for C14 {
    fn id(&self) -> &'static str {
        "C14"
    }
    fn generate(&self, rng: &mut Rng, tier: Tier) -> Box<dyn Case> {
        let mut cfg = GenCfg::swarm(rng);
        cfg.size = *rng.pick(&[2usize, 4, 6, 10, 16]);
        if tier == Tier::Thorough && rng.pct(35) {
            // the thorough tier also explores larger programs
            cfg.size *= 2;
        }
        cfg.on = rng.pct(80);
        cfg.gosub = rng.pct(80);
        cfg.back_goto = rng.pct(70);
        cfg.data = rng.pct(60);
        cfg.tron = rng.pct(10);
        if cfg.tron {
            // trace tokens change width with the line numbers: column-sensitive items would differ legitimately
            cfg.layout = false;
        }
        cfg.stop = rng.pct(15);
        cfg.errors = rng.pct(25);
        let mut prog = gen_program(rng, cfg);
        // lines near the top of the range
        if rng.pct(12) && !prog.lines.is_empty() {
            let n = prog.lines.len() as u32;
            let step = 1 + rng.below(4) as u32;
            let room = 12 * step;
            let start = 65529 - step * (n - 1) - rng.below(room as u64 + 1) as u32;
            for (i, l) in prog.lines.iter_mut().enumerate() {
                l.num = (start + step * i as u32) as u16;
            }
        }
        decorate(rng, &mut prog);
        let mut r = Ref::new(&prog);
        r.auto_reply = Some(rng.fork());
        r.max_steps = 4000;
        let mut ended = r.direct_line(&[Stmt::Run(None)]);
        let mut guard = 0;
        while guard < 6 && r.grey.is_none() && matches!(ended, crate::refbasic::Ended::Break) {
            ended = r.direct_line(&[Stmt::Cont]);
            guard += 1;
        }
        let mut replies = r.used_replies.clone();
        for _ in 0..3 {
            replies.push("1".into());
        }
        let nums: Vec<u32> = prog.lines.iter().map(|l| l.num as u32).collect();
        let some_num = |rng: &mut Rng| -> u32 {
            if nums.is_empty() {
                10
            } else {
                *rng.pick(&nums)
            }
        };
        let last = nums.last().copied().unwrap_or(10);
        let new = match rng.below(12) {
            0..=2 => None,
            3 => Some(some_num(rng)),
            4 => Some(some_num(rng) + 1),
            5 => Some(0),
            6 => Some(*rng.pick(&[65000u32, 65520, 65529])),
            7 => Some(*rng.pick(&[65530u32, 70000, 99999])).filter(|_| rng.pct(30)).or(Some(1)),
            _ => Some(*rng.pick(&[1u32, 5, 10, 100, 1000, 20000, 60000])),
        };
        let old = match rng.below(10) {
            0..=3 => None,
            4..=6 => Some(some_num(rng)),
            7 => Some(some_num(rng) + 1),
            8 => Some(*rng.pick(&[0u32, last + 1, 65529])),
            _ => Some(*rng.pick(&[65530u32, 70000])).filter(|_| rng.pct(30)).or(Some(last)),
        };
        let step = match rng.below(12) {
            0..=4 => None,
            5 => Some(0).filter(|_| rng.pct(60)).or(Some(1)),
            6 => Some(*rng.pick(&[65529u32, 65530, 40000])),
            _ => Some(*rng.pick(&[1u32, 1, 2, 3, 5, 10, 100, 1000, 20000])),
        };
        let mode = match rng.below(20) {
            0 => Mode::InProgram,
            1 => Mode::CompileError,
            _ => Mode::Direct,
        };
        Box::new(C14Case {
            prog,
            new,
            old,
            step,
            mode,
            snapshot: rng.pct(30),
            pre: if rng.pct(20) && nums.len() >= 2 {
                // lines from a seeded one on move above all others; the lines below it keep their
                // numbers (and their references to lines below old-start have nothing to replace)
                let k = 1 + rng.usize(nums.len() - 1);
                let st = *rng.pick(&[1u32, 10, 50]);
                Some((last + *rng.pick(&[1u32, 10, 100]), nums[k], st))
            } else {
                None
            },
            replies,
            sched_variant: rng.usize(3),
            entropy: rng.next_u64(),
        })
    }
    fn budget(&self, tier: Tier) -> Budget {
        match tier {
            Tier::Quick => Budget {
                runs: 200_000,
                watchdog_s: 60,
            },
            Tier::Thorough => Budget {
                runs: 8_000_000,
                watchdog_s: 60,
            },
        }
    }
    fn rule(&self) -> &'static str {
        "one evaluation = a generated link-clean program (GOTO, GOSUB, IF..THEN n / ELSE n / IF..GOTO n, ON..GOTO, ON..GOSUB, RESTORE n, and on unreachable lines RUN n, LIST / DELETE in all range forms and bare; decoy numbers in PRINT, DATA, strings and remarks; non-ASCII literals and octal / hex / exponent / typed numeric literals in front of references; line 0; lines up to 65529) typed into the real runtime, optionally a get_listing() snapshot held, then (20%: after a first, valid partial RENUM that moves the lines from a seeded one on above all others) RENUM in one of its eight argument forms with valid, overflowing, reordering, step-0 and out-of-range operands (5%: as the first program line + RUN; 5%: on a program with a dangling reference and / or a line that does not parse; a RENUM that goes through there must not turn the dangling reference into a live one); verdict = (error reported AND listing unchanged) OR (no error AND listing equals the model renumbering of the AST, lines are found under their new numbers by LIST n and by the completion lookup, and typing a new number replaces that line), then RUN of original (fresh twin) and renumbered program with transcripts and final variables equal modulo the line map; distinct = distinct API/event log fingerprint; non-trivial = RENUM reached its verdict"
    }
    fn assumptions(&self) -> Vec<&'static str> {
        vec![
            "a refused triple that the manual makes valid is not a violation of the property as stated (counted as c14.valid_triple_refused)",
            "the per-line text rewriting is a pure function; it is exercised here only through the transaction, over generated programs",
            "trace tokens [n] and ' IN n' of error reports are the only line numbers a run mentions; both are mapped through the line map",
        ]
    }
    fn required_probes(&self) -> Vec<&'static str> {
        vec![
            "c14.success_with_changed_numbers",
            "c14.failed_unchanged",
            "c14.behaviour_compared",
            "c14.snapshot_held",
            "c14.lookup_by_new_number",
            "c14.mode.in_program",
            "c14.mode.compile_error",
            "c14.ref.goto",
            "c14.ref.gosub",
            "c14.ref.on_goto",
            "c14.ref.on_gosub",
            "c14.ref.restore",
            "c14.ref.run",
            "c14.ref.list",
            "c14.ref.delete",
            "c14.ref.if_line",
            "c14.form.bare",
            "c14.form.n",
            "c14.form.n_o",
            "c14.form.n_o_s",
            "c14.form._o",
            "c14.form.__s",
            "c14.form.n__s",
            "c14.form._o_s",
        ]
    }
}
