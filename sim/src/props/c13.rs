//! C13 - interrupt, STOP and END are transparent under CONT; slicing does not matter.
//!
//! Per sampled program the interrupt instant is *enumerated* over every VM
//! instruction of the run and over every INPUT wait state; STOP and END are
//! inserted at every statement boundary; several quantum schedules are run.
//! Oracle: the uninterrupted run of the same program (self-differential).

use crate::ast::*;
use crate::framework::*;
use crate::gen::{gen_program, GenCfg};
use crate::json::Json;
use crate::prng::Rng;
use crate::refbasic::Ref;
use crate::session::*;
use crate::world::*;

pub struct C13;

#[derive(Clone, Debug, PartialEq)]
enum Focus {
    All,
    Instr(u64),
    AtInput(usize),
    AfterReply(usize),
    AfterList(usize),
    Stop(usize, usize, bool), // line, statement index, END instead of STOP
    Sched(usize),
}

#[derive(Clone)]
pub struct C13Case {
    /// the check this case is run for (keys and crash reports carry it)
    prop: &'static str,
    prog: Program,
    replies: Vec<String>,
    keys: Vec<String>,
    layout_member: bool,
    inspect: bool,
    sched_seed: u64,
    entropy: u64,
    focus: Focus,
    max_points: u64,
    /// instruction budget of one run (the deep-recursion member needs a million)
    max_instr: u64,
}

const MAX_INSTR: u64 = 6000;

fn sched_from(seed: u64, variant: usize) -> Sched {
    let mut r = Rng::new(seed ^ (variant as u64).wrapping_mul(0x9E37));
    match variant % 7 {
        0 => Sched::fixed(1),
        1 => Sched::fixed(5000),
        2 => Sched::list((0..400).map(|_| 1 + r.below(8) as u32).collect(), 3),
        3 => Sched::list((0..400).map(|_| 1 + r.geometric(8) * 5).collect(), 20),
        4 => Sched::list((0..400).map(|_| *r.pick(&[2u32, 3, 5, 7, 11, 13])).collect(), 7),
        5 => Sched::list((0..400).map(|i| if i % 2 == 0 { 1 } else { 5000 }).collect(), 5000),
        _ => Sched::fixed(2 + r.below(8) as u32),
    }
}

impl C13Case {
    fn lines(&self) -> Vec<String> {
        render_program(&self.prog)
    }

    fn world(&self, sched: Sched) -> World {
        let mut w = World::booted(sched, self.entropy, false);
        // in a quarter of the cases every Ctrl-C reaches the runtime twice before the next slice
        w.double_intr = self.entropy % 4 == 1;
        // in a third of the cases a break at a pending INPUT prompt is resumed behind a PRINT
        w.cont_behind_print = self.entropy % 3 == 0;
        enter_program(&mut w, &self.lines());
        w
    }

    /// The direct line typed between a break and CONT: it reads, lists or saves; the one that assigns
    /// (an INPUT of its own) uses a variable no generated program mentions.
    fn inspect_line(&self) -> Option<String> {
        if !self.inspect {
            return None;
        }
        if self.sched_seed % 8 == 1 && (self.sched_seed / 8) % 2 == 0 {
            // an inspection line that is one character too long for the 1024-character line buffer:
            // it is refused (?LINE BUFFER OVERFLOW) and must leave the stopped program continuable
            let mut l = String::from("PRINT N%;A;S$:REM ");
            while l.chars().count() < 1025 {
                l.push('X');
            }
            return Some(l);
        }
        const LINES: [&str; 8] = [
            "PRINT N%;A;S$",
            "PRINT N%;A;S$",
            "INPUT ZQ9",
            "SAVE \"SNAP\"",
            "LIST",
            "LIST -30",
            "PRINT A:SAVE \"SNAP\":REM",
            "PRINT LEN(S$);:PRINT",
        ];
        Some(LINES[(self.sched_seed % 8) as usize].to_string())
    }

    fn complete(&self, w: &mut World, plan: &Plan) -> (Completion, Vec<Tok>) {
        let inspect = self.inspect_line();
        let c = run_to_completion(w, "RUN", &self.replies, &self.keys, plan, inspect.as_deref(), self.max_instr, 300);
        let probes = run_probes(w, &probe_lines(&self.prog));
        (c, probes)
    }
}

fn add(v: &mut Verdict, w: &World) {
    v.stats.merge(&w.stats);
    v.instr += w.total_instr;
    v.sim_us += w.sim_us;
    v.executions += 1;
    v.fingerprint ^= w.log_hash.rotate_left((v.executions % 63) as u32);
}

impl Case for C13Case {
    fn execute(&self) -> Verdict {
        let mut v = Verdict::default();
        // base run
        let mut wb = self.world(Sched::fixed(DEFAULT_Q));
        let (base, base_probe) = self.complete(&mut wb, &Plan::None);
        add(&mut v, &wb);
        if let Some(f) = &wb.fatal {
            return Verdict {
                violation: Some(Violation {
                    key: format!("{}:crash:{}", self.prop, f.tag),
                    detail: f.detail.clone(),
                }),
                ..v
            };
        }
        if base.budget_hit {
            v.discarded = Some("base run exceeded the instruction budget".into());
            return v;
        }
        if base.cont_limit {
            v.discarded = Some("base run stops more than 300 times".into());
            return v;
        }
        if base.abandoned_input {
            v.discarded = Some("base run needs more replies than were generated".into());
            return v;
        }
        if wb.events.iter().any(|e| matches!(e, Ev::Errors(es) if es.iter().any(|x| x.has_column()))) {
            v.discarded = Some("generated program has a compile-time error".into());
            return v;
        }
        let base_events = wb.events.clone();
        let base_midline = wb.midline_stops;
        let total: u64 = base.per_line_instr.iter().sum();
        let n_inputs = base_events.iter().filter(|e| matches!(e, Ev::Input(..))).count();
        let n_replies = replies_used(&base_events);
        v.nontrivial = total > 5;
        let check = |v: &mut Verdict, what: &str, plan: Plan, prog: Option<&Program>, sched: Sched| -> Option<Violation> {
            let case_prog;
            let this: &C13Case = match prog {
                Some(p) => {
                    case_prog = C13Case {
                        prog: p.clone(),
                        ..self.clone()
                    };
                    &case_prog
                }
                None => self,
            };
            let mut w = this.world(sched);
            let (c, probe) = this.complete(&mut w, &plan);
            add(v, &w);
            if let Some(f) = &w.fatal {
                return Some(Violation {
                    key: format!("{}:crash:{}", self.prop, f.tag),
                    detail: format!("{} [{}]", f.detail, what),
                });
            }
            let mut site = String::new();
            if c.cont_limit {
                v.stats.bump("c13.cont_limit_not_judged");
                return None;
            }
            if this.layout_member && w.midline_stops > base_midline {
                v.stats.bump("c13.midline_stop_not_judged_in_layout_member");
                return None;
            }
            if plan != Plan::None {
                site = format!("@{}", w.last_intr_site);
                if c.intr_fired == 0 {
                    v.stats.bump("c13.intr_not_reached");
                    return None;
                }
                if !w.last_intr_in_program {
                    v.stats.bump("c13.intr_outside_program_not_judged");
                    return None;
                }
                if this.layout_member && w.last_intr_col > 0 {
                    v.stats.bump("c13.intr_mid_line_not_judged_in_layout_member");
                    return None;
                }
                v.stats.bump("c13.intr_judged");
            }
            if c.budget_hit {
                return Some(Violation {
                    key: format!("{}:{}{}:did-not-finish", self.prop, what.split(' ').next().unwrap_or(what), site),
                    detail: format!("{}: the continued run did not finish within the budget", what),
                });
            }
            if c.toks != base.toks {
                return Some(Violation {
                    key: format!("{}:{}{}:transcript", self.prop, what.split(' ').next().unwrap_or(what), site),
                    detail: format!("{}: {}", what, first_diff(&base.toks, &c.toks)),
                });
            }
            if probe != base_probe {
                return Some(Violation {
                    key: format!("{}:{}{}:variables", self.prop, what.split(' ').next().unwrap_or(what), site),
                    detail: format!("{}: {}", what, first_diff(&base_probe, &probe)),
                });
            }
            None
        };
        let post = |k: u64| sched_from(self.sched_seed, (k % 7) as usize);
        // 2. every interrupt point
        let instr_points: Vec<u64> = match &self.focus {
            Focus::All => {
                let n = total.min(self.max_points);
                (0..=n).collect()
            }
            Focus::Instr(k) => vec![*k],
            _ => vec![],
        };
        for k in instr_points {
            if let Some(viol) = check(&mut v, &format!("interrupt after {} instructions", k), Plan::Instr(k), None, post(k)) {
                v.violation = Some(viol);
                return v;
            }
        }
        let input_points: Vec<usize> = match &self.focus {
            Focus::All => (0..n_inputs).collect(),
            Focus::AtInput(j) => vec![*j],
            _ => vec![],
        };
        for j in input_points {
            if let Some(viol) = check(&mut v, &format!("interrupt-at-input {}", j), Plan::AtInput(j), None, post(j as u64)) {
                v.violation = Some(viol);
                return v;
            }
        }
        let reply_points: Vec<usize> = match &self.focus {
            Focus::All => (0..n_replies).collect(),
            Focus::AfterReply(j) => vec![*j],
            _ => vec![],
        };
        for j in reply_points {
            if let Some(viol) = check(&mut v, &format!("interrupt-after-reply {}", j), Plan::AfterReply(j), None, post(j as u64 + 3)) {
                v.violation = Some(viol);
                return v;
            }
        }
        let n_lists = base_events.iter().filter(|e| matches!(e, Ev::List(..))).count();
        let list_points: Vec<usize> = match &self.focus {
            Focus::All => (0..n_lists).collect(),
            Focus::AfterList(j) => vec![*j],
            _ => vec![],
        };
        for j in list_points {
            if let Some(viol) = check(&mut v, &format!("interrupt-after-listed-line {}", j), Plan::AfterList(j), None, post(j as u64 + 5)) {
                v.violation = Some(viol);
                return v;
            }
        }
        // 3. STOP / END at every top-level statement boundary
        let mut places: Vec<(usize, usize, bool)> = vec![];
        // a program that lists itself shows the inserted STOP / END: not comparable
        let lists_itself = self.prog.lines.iter().any(|l| l.stmts.iter().any(|s| matches!(s, Stmt::ListCmd(..))));
        match &self.focus {
            Focus::All if lists_itself => {}
            Focus::All => {
                for (i, l) in self.prog.lines.iter().enumerate() {
                    for j in 0..l.stmts.len() {
                        if code_follows(&self.prog, i, j) {
                            places.push((i, j, false));
                            places.push((i, j, true));
                        }
                    }
                }
            }
            Focus::Stop(i, j, e) => places.push((*i, *j, *e)),
            _ => {}
        }
        for (i, j, is_end) in places {
            if i >= self.prog.lines.len() || j > self.prog.lines[i].stmts.len() {
                continue;
            }
            let mut p = self.prog.clone();
            p.lines[i].stmts.insert(j, if is_end { Stmt::End } else { Stmt::Stop });
            v.stats.bump(if is_end { "c13.end_inserted" } else { "c13.stop_inserted" });
            let what = format!(
                "{} inserted before statement {} of line {}",
                if is_end { "END-insert" } else { "STOP-insert" },
                j,
                self.prog.lines[i].num
            );
            if let Some(viol) = check(&mut v, &what, Plan::None, Some(&p), Sched::fixed(DEFAULT_Q)) {
                v.violation = Some(viol);
                return v;
            }
        }
        // 4. quantum schedules: identical event logs, no normalisation
        let scheds: Vec<usize> = match &self.focus {
            Focus::All => (0..7).collect(),
            Focus::Sched(s) => vec![*s],
            _ => vec![],
        };
        for s in scheds {
            let mut w = self.world(sched_from(self.sched_seed, s));
            let (_c, _p) = self.complete(&mut w, &Plan::None);
            add(&mut v, &w);
            v.stats.bump("c13.schedules_compared");
            if let Some(f) = &w.fatal {
                v.violation = Some(Violation {
                    key: format!("{}:crash:{}", self.prop, f.tag),
                    detail: format!("{} [schedule {}]", f.detail, s),
                });
                return v;
            }
            if w.events != base_events {
                let i = (0..w.events.len().max(base_events.len()))
                    .find(|i| w.events.get(*i) != base_events.get(*i))
                    .unwrap_or(0);
                v.violation = Some(Violation {
                    key: format!("{}:quantum:events", self.prop),
                    detail: format!(
                        "schedule {}: event {} is {:?}, with quantum 5000 it is {:?}",
                        s,
                        i,
                        w.events.get(i),
                        base_events.get(i)
                    ),
                });
                return v;
            }
        }
        v
    }

    fn shrink(&self) -> Vec<Box<dyn Case>> {
        let mut out: Vec<Box<dyn Case>> = vec![];
        for p in shrink_program(&self.prog) {
            out.push(Box::new(C13Case {
                prog: p,
                focus: Focus::All,
                ..self.clone()
            }));
        }
        if self.inspect {
            out.push(Box::new(C13Case {
                inspect: false,
                ..self.clone()
            }));
        }
        if !self.replies.is_empty() {
            let mut r = self.replies.clone();
            r.pop();
            out.push(Box::new(C13Case {
                replies: r,
                ..self.clone()
            }));
        }
        if self.focus == Focus::All {
            for k in 0..=self.max_points.min(MAX_INSTR) {
                out.push(Box::new(C13Case {
                    focus: Focus::Instr(k),
                    ..self.clone()
                }));
            }
            for j in 0..8 {
                out.push(Box::new(C13Case {
                    focus: Focus::AtInput(j),
                    ..self.clone()
                }));
                out.push(Box::new(C13Case {
                    focus: Focus::AfterReply(j),
                    ..self.clone()
                }));
            }
            for j in 0..40 {
                out.push(Box::new(C13Case {
                    focus: Focus::AfterList(j),
                    ..self.clone()
                }));
            }
            for (i, l) in self.prog.lines.iter().enumerate() {
                for j in 0..l.stmts.len() {
                    out.push(Box::new(C13Case {
                        focus: Focus::Stop(i, j, false),
                        ..self.clone()
                    }));
                    out.push(Box::new(C13Case {
                        focus: Focus::Stop(i, j, true),
                        ..self.clone()
                    }));
                }
            }
            for s in 0..7 {
                out.push(Box::new(C13Case {
                    focus: Focus::Sched(s),
                    ..self.clone()
                }));
            }
        }
        out
    }

    fn describe(&self) -> Json {
        scenario("C13 program under every interrupt point / STOP,END placement / quantum schedule", &self.lines())
            .set("run", "RUN, then CONT after every stop until ?CAN'T CONTINUE")
            .set("replies", self.replies.clone())
            .set("keys", self.keys.clone())
            .set("focus", format!("{:?}", self.focus))
            .set("inspect_line_between_break_and_cont", self.inspect_line().map(|l| if l.len() > 80 { format!("{}... ({} characters)", &l[..40], l.len()) } else { l }).unwrap_or_else(|| "(none)".to_string()))
            .set("layout_member_breaks_only_at_column_0", self.layout_member)
            .set("post_cont_schedule_seed", self.sched_seed)
            .set("every_interrupt_delivered_twice", self.entropy % 4 == 1)
            .set("entropy", self.entropy)
            .build()
    }
}

/// A program of the given configuration with the whole interrupt / STOP / END / schedule
/// enumeration of C13 around it, reported under `prop` (other checks enumerate the interrupt
/// instants of their own kind of program with it).
pub fn interrupt_case(rng: &mut Rng, cfg: GenCfg, prop: &'static str, max_points: u64) -> Box<dyn Case> {
    let layout_member = cfg.layout;
    let mut prog = gen_program(rng, cfg);
        if rng.pct(15) && prog.lines.len() >= 2 {
            // the program lists a part of itself: the LIST statement is served line by line and can be
            // interrupted between any two lines
            let n = prog.lines.len();
            let at = rng.usize(n);
            let a = rng.usize(n);
            let b = a + rng.usize(n - a);
            let num = prog.lines[at].num;
            let free = num > 0 && (at == 0 || prog.lines[at - 1].num < num - 1);
            if free {
                prog.lines.insert(
                    at,
                    Line {
                        num: num - 1,
                        stmts: vec![Stmt::ListCmd(Some(Target::L(a)), Some(Target::L(b)))],
                    },
                );
                crate::gen::map_targets(&mut prog, &mut |t| {
                    if let Target::L(i) = t {
                        if *i >= at {
                            *i += 1;
                        }
                    }
                });
            }
        }
        // replies through the reference model used as a workload helper (never as oracle here)
        let mut r = Ref::new(&prog);
        r.auto_reply = Some(rng.fork());
        r.max_steps = 3000;
        let mut guard = 0;
        let mut ended = r.direct_line(&[Stmt::Run(None)]);
        while guard < 8 && r.grey.is_none() && matches!(ended, crate::refbasic::Ended::Break | crate::refbasic::Ended::Ready) {
            ended = r.direct_line(&[Stmt::Cont]);
            guard += 1;
            if matches!(ended, crate::refbasic::Ended::Error) {
                break;
            }
        }
        let mut replies = r.used_replies.clone();
        // a few spare ones in case the model stopped early
        for _ in 0..3 {
            replies.push(rng.pick(&["1", "2,3", "X", "4,5,6"]).to_string());
        }
        let keys: Vec<String> = (0..6).map(|_| rng.pick(&["", "a", "Q", "\r"]).to_string()).collect();
    Box::new(C13Case {
        prop,
        prog,
        replies,
        keys,
        layout_member,
        inspect: rng.pct(50),
        sched_seed: rng.next_u64(),
        entropy: rng.next_u64(),
        focus: Focus::All,
        max_points,
        max_instr: MAX_INSTR,
    })
}

/// Interrupts with the value stack almost full: GOSUB recursion to 65 504 .. 65 530 frames (the
/// pool holds 65 535), an INPUT at the bottom, so that "at the INPUT wait" and "right after the
/// reply" are interrupt instants with a nearly full stack; plus the usual enumeration.
fn deep_case(rng: &mut Rng) -> Box<dyn Case> {
    // deep enough for the 'nearly full' rule (more than 65 503 values), with room left for the
    // INPUT's own staging (pools driven over the limit are C18's subject)
    let k = 65_504 + rng.below(14) as u32;
    let d = || Expr::var("D");
    let lit = |n: u32| Expr::Sng(n as f32);
    let prog = Program {
        lines: vec![
            Line {
                num: 5,
                stmts: vec![
                    Stmt::Gosub(Target::L(1)),
                    Stmt::Print {
                        q: false,
                        items: vec![PItem::E(Expr::Str("DONE".into())), PItem::Semi, PItem::E(d())],
                    },
                    Stmt::End,
                ],
            },
            Line {
                num: 10,
                stmts: vec![
                    Stmt::Let {
                        kw: false,
                        target: LVal::scalar("D"),
                        expr: Expr::bin(BinOp::Add, d(), Expr::Int(1)),
                    },
                    Stmt::If {
                        cond: Expr::bin(BinOp::Lt, d(), lit(k)),
                        goto_form: false,
                        then: Branch::Stmts(vec![Stmt::Gosub(Target::L(1))]),
                        els: None,
                    },
                ],
            },
            Line {
                num: 15,
                stmts: vec![Stmt::If {
                    cond: Expr::bin(BinOp::And, Expr::bin(BinOp::Ge, d(), lit(k)), Expr::bin(BinOp::Eq, Expr::var("F%"), Expr::Int(0))),
                    goto_form: false,
                    then: Branch::Stmts(vec![
                        Stmt::Let {
                            kw: false,
                            target: LVal::scalar("F%"),
                            expr: Expr::Int(1),
                        },
                        Stmt::Input {
                            nocaps: false,
                            prompt: None,
                            targets: vec![LVal::scalar("Z"), LVal::scalar("Z$")],
                        },
                    ]),
                    els: None,
                }],
            },
            Line {
                num: 20,
                stmts: vec![Stmt::Return],
            },
        ],
    };
    Box::new(C13Case {
        prop: "C13",
        prog,
        replies: vec!["1".into(), "2,DEEP".into(), "3,X".into()],
        keys: vec![],
        layout_member: false,
        // no inspection line: with a few free slots left it may fail itself, and a failing direct
        // statement between break and CONT is a grey zone
        inspect: false,
        sched_seed: rng.next_u64(),
        entropy: rng.next_u64(),
        focus: Focus::All,
        max_points: 12,
        max_instr: 3_000_000,
    })
}

impl Property for C13 {
    fn id(&self) -> &'static str {
        "C13"
    }
    fn level(&self) -> &'static str {
        "fault_enumeration"
    }
    fn generate(&self, rng: &mut Rng, tier: Tier) -> Box<dyn Case> {
        if rng.below(400) == 0 {
            return deep_case(rng);
        }
        let mut cfg = GenCfg::swarm(rng);
        cfg.tron = false;
        cfg.size = *rng.pick(&[2usize, 3, 4, 6, 8]);
        if tier == Tier::Thorough && rng.pct(35) {
            // the thorough tier also explores larger programs
            cfg.size *= 2;
        }
        cfg.inkey = rng.pct(15);
        cfg.layout = rng.pct(40);
        interrupt_case(rng, cfg, "C13", 700)
    }
    fn budget(&self, tier: Tier) -> Budget {
        match tier {
            Tier::Quick => Budget {
                runs: 2500,
                watchdog_s: 120,
            },
            Tier::Thorough => Budget {
                runs: 60000,
                watchdog_s: 120,
            },
        }
    }
    fn rule(&self) -> &'static str {
        "one evaluation = one generated program (2-25 lines; FOR/WHILE/GOSUB/ON/IF/INPUT/READ/DEF FN/SWAP/MID$=, optional planted runtime error) for which EVERY interrupt instant k in 0..N (N = instructions of the uninterrupted run, up to 700), every INPUT wait, every after-reply instant and (15% of the programs carry a LIST statement) every instant between two listed lines is executed with interrupt()+CONT, STOP and END are inserted at every top-level statement boundary, and 7 quantum schedules are run; in a quarter of the programs every Ctrl-C is delivered twice (two interrupt() calls before the next slice); in a third a break at a pending INPUT prompt is resumed with `PRINT \"AGAIN: \";:CONT` (cursor mid-line when the prompt is shown again); in half of the programs a non-assigning direct line (PRINT of variables, SAVE, LIST, LIST -30, PRINT:SAVE:REM, an INPUT of its own into an unused variable) is typed between every break and its CONT; 1 in 400 evaluations is a GOSUB recursion to 65 504 - 65 530 frames with an INPUT at the bottom (interrupts with the value stack almost full); distinct = distinct fingerprint of all event logs of the case; non-trivial = the uninterrupted run executed more than 5 VM instructions"
    }
    fn assumptions(&self) -> Vec<&'static str> {
        vec![
            "TRON is excluded (CONT re-announces the current line; the manual does not settle it)",
            "an interrupt that lands while the direct RUN/CONT line itself executes is counted, not judged",
            "in the layout member (',' TAB POS items) only interrupts arriving at cursor column 0 are judged, since the forced line break legitimately moves the column",
            "CONT after a runtime error is not exercised",
            "a line break directly in front of an error report is not compared (it is forced or not depending on the column)",
            "interrupt while an INKEY$ request is pending is outside the calling protocol of the shipped UI and is not injected",
            "exhaustive over interrupt instants, INPUT waits, STOP/END placements per sampled program; sampled over programs and post-CONT schedules",
        ]
    }
    fn required_probes(&self) -> Vec<&'static str> {
        vec![
            "c13.intr_judged",
            "c13.stop_inserted",
            "c13.end_inserted",
            "c13.schedules_compared",
            "intr.state.Input",
            "intr.state.Running",
        ]
    }
}
