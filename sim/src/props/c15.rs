//! C15 - the program store is an ordered map with exact LIST/DELETE ranges.
//!
//! Seeded edit / LIST / DELETE histories over a small universe of line numbers,
//! with LIST interrupted mid-way and snapshots held across edits.
//! Oracle: BTreeMap<u16, String> model, compared after every operation.

use crate::framework::*;
use crate::json::{obj, Json};
use crate::prng::Rng;
use crate::props::c03::fatal_violation;
use crate::world::*;
use std::collections::BTreeMap;

pub struct C15;

#[derive(Clone, Debug)]
enum Op {
    /// numbered line: number, spelling of the number prefix, canonical statement text
    Put(u32, u8, String),
    /// bare number
    Bare(u32),
    /// LIST / DELETE with a range form
    /// LIST with a range form; interrupt after the j-th listed line; typed behind `PRINT "AB";:` (cursor mid-line)
    List(Range, Option<usize>, bool),
    /// LIST with a range form; right after the first listed line the host loads a file by itself
    /// (`set_listing` while the runtime is in the middle of a listing)
    ListLoad(Range),
    Delete(Range),
    Tab(u32),
    Snap,
    SnapDrop(usize),
    SnapCheck(usize),
    /// NEW: the store becomes empty
    New,
    /// a file of numbered lines put on the SimDisk and loaded: the store becomes exactly the file
    Load(Vec<(u32, String)>),
    /// a LIST / DELETE statement stored in a program line and executed by RUN (interrupt after the j-th listed line, CONT)
    ProgList(Range, Option<usize>),
}

/// what the host loads by itself in the middle of a listing
const HOST_FILE: &[(u32, &str)] = &[(2, "PRINT 2"), (11, "REM"), (65529, "END")];

#[derive(Clone, Debug)]
enum Range {
    All,
    One(u32),
    From(u32),
    To(u32),
    Between(u32, u32),
}

impl Range {
    fn text(&self) -> String {
        match self {
            Range::All => String::new(),
            Range::One(n) => format!(" {}", n),
            Range::From(n) => format!(" {}-", n),
            Range::To(n) => format!(" -{}", n),
            Range::Between(a, b) => format!(" {}-{}", a, b),
        }
    }
    /// inclusive bounds, or None when the manual says the command is rejected
    fn bounds(&self) -> Option<(u32, u32)> {
        let ok = |n: u32| n <= 65529;
        match self {
            Range::All => Some((0, 65529)),
            Range::One(n) if ok(*n) => Some((*n, *n)),
            Range::From(n) if ok(*n) => Some((*n, 65529)),
            Range::To(n) if ok(*n) => Some((0, *n)),
            Range::Between(a, b) if ok(*a) && ok(*b) && a <= b => Some((*a, *b)),
            _ => None,
        }
    }
}

#[derive(Clone)]
struct C15Case {
    ops: Vec<Op>,
    sched_variant: usize,
    entropy: u64,
}

const UNIVERSE: &[u32] = &[0, 1, 2, 9, 10, 11, 100, 65528, 65529];
const TEXTS: &[&str] = &[
    "PRINT 1",
    "PRINT \"A\"",
    "REM x",
    "A=5",
    "GOTO 10",
    "END",
    "PRINT \"é\";2",
    "DATA 1,2",
    "FOR I=1 TO 2:NEXT",
    "'c",
];

fn number(rng: &mut Rng) -> u32 {
    if rng.pct(75) {
        *rng.pick(UNIVERSE)
    } else {
        rng.below(65530) as u32
    }
}

fn operand(rng: &mut Rng) -> u32 {
    match rng.below(20) {
        0 => 65530,
        1 => 99999,
        2 => rng.below(65530) as u32,
        _ => *rng.pick(UNIVERSE),
    }
}

fn range(rng: &mut Rng, allow_all: bool) -> Range {
    match rng.below(10) {
        0 if allow_all => Range::All,
        1..=3 => Range::One(operand(rng)),
        4..=5 => Range::From(operand(rng)),
        6..=7 => Range::To(operand(rng)),
        _ => Range::Between(operand(rng), operand(rng)),
    }
}

fn put_text(n: u32, spelling: u8, text: &str) -> String {
    match spelling {
        1 => format!("0{} {}", n, text),
        2 => format!(" {} {}", n, text),
        3 if text.starts_with(|c: char| c.is_ascii_alphabetic() || c == '\'') => format!("{}{}", n, text),
        4 => format!("{}\t{}", n, text).replace('\t', " "),
        _ => format!("{} {}", n, text),
    }
}

impl Case for C15Case {
    fn execute(&self) -> Verdict {
        let mut v = Verdict::default();
        let sched = match self.sched_variant % 3 {
            0 => Sched::fixed(DEFAULT_Q),
            1 => Sched::fixed(1),
            _ => Sched::fixed(3),
        };
        let mut w = World::booted(sched, self.entropy, false);
        let mut model: BTreeMap<u32, String> = BTreeMap::new();
        let mut snap_models: Vec<Option<String>> = vec![];
        let render = |m: &BTreeMap<u32, String>| -> String {
            let mut s = String::new();
            for (n, t) in m {
                s.push_str(&format!("{} {}\n", n, t));
            }
            s
        };
        let mut fail: Option<Violation> = None;
        for (opi, op) in self.ops.iter().enumerate() {
            if w.fatal.is_some() || fail.is_some() {
                break;
            }
            match op {
                Op::Put(n, sp, text) => {
                    if w.snaps_alive() > 0 {
                        w.stats.bump("fault.live_snapshot_during_edit");
                    }
                    let line = put_text(*n, *sp, text);
                    let o = w.line(&line, &LineIo::budget(200));
                    if *n <= 65529 {
                        model.insert(*n, text.to_string());
                        w.stats.bump("c15.put");
                        if w.events[o.ev_start..o.ev_end].iter().any(|e| matches!(e, Ev::Errors(_))) {
                            fail = Some(Violation {
                                key: "C15:put-rejected".into(),
                                detail: format!("op {}: numbered line {:?} was answered with an error", opi, line),
                            });
                        }
                    } else {
                        w.stats.bump("c15.put_above_limit");
                        if !w.events[o.ev_start..o.ev_end].iter().any(|e| matches!(e, Ev::Errors(_))) {
                            fail = Some(Violation {
                                key: "C15:number-above-limit-accepted".into(),
                                detail: format!("op {}: {:?} was accepted without an error", opi, line),
                            });
                        }
                    }
                }
                Op::Bare(n) => {
                    if w.snaps_alive() > 0 {
                        w.stats.bump("fault.live_snapshot_during_edit");
                    }
                    w.line(&n.to_string(), &LineIo::budget(200));
                    if *n <= 65529 {
                        if model.remove(n).is_some() {
                            w.stats.bump("c15.bare_delete_present");
                        } else {
                            w.stats.bump("c15.bare_delete_absent");
                        }
                    }
                }
                Op::Delete(r) => {
                    if w.snaps_alive() > 0 {
                        w.stats.bump("fault.live_snapshot_during_edit");
                    }
                    let o = w.line(&format!("DELETE{}", r.text()), &LineIo::budget(200));
                    let had_error = w.events[o.ev_start..o.ev_end].iter().any(|e| matches!(e, Ev::Errors(_)));
                    match (r, r.bounds()) {
                        (Range::All, _) => {
                            w.stats.bump("c15.delete_bare");
                            if !had_error {
                                fail = Some(Violation {
                                    key: "C15:bare-delete-accepted".into(),
                                    detail: format!("op {}: bare DELETE reported no error", opi),
                                });
                            }
                        }
                        (_, None) => {
                            w.stats.bump("c15.delete_rejected_form");
                            if !had_error {
                                fail = Some(Violation {
                                    key: "C15:bad-range-accepted".into(),
                                    detail: format!("op {}: DELETE{} reported no error", opi, r.text()),
                                });
                            }
                        }
                        (_, Some((a, b))) => {
                            if a == 0 && b == 65529 {
                                // whole-program range written explicitly: the manual does not say which rule wins
                                w.stats.bump("c15.delete_whole_range_not_judged");
                                let real = w.listing_text();
                                if real.is_empty() {
                                    model.clear();
                                }
                            } else {
                                w.stats.bump("c15.delete_range");
                                let doomed: Vec<u32> = model.range(a..=b).map(|(k, _)| *k).collect();
                                if !doomed.is_empty() {
                                    w.stats.bump("c15.delete_range_nonempty");
                                }
                                for k in doomed {
                                    model.remove(&k);
                                }
                                if had_error {
                                    fail = Some(Violation {
                                        key: "C15:valid-delete-rejected".into(),
                                        detail: format!("op {}: DELETE{} reported an error", opi, r.text()),
                                    });
                                }
                            }
                        }
                    }
                }
                Op::List(r, intr_after, midline) => {
                    let mut io = LineIo::budget(5000);
                    // a listing of at most 20 lines needs a few dozen execute() calls
                    io.max_slices = 400;
                    if let Some(j) = intr_after {
                        io.intrs.push(When::AfterList(*j));
                    }
                    let o = w.line(&format!("{}LIST{}", if *midline { "PRINT \"AB\";:" } else { "" }, r.text()), &io);
                    if *midline {
                        w.stats.bump("c15.list_with_cursor_mid_line");
                    }
                    let evs = &w.events[o.ev_start..o.ev_end];
                    let listed: Vec<String> = evs
                        .iter()
                        .filter_map(|e| if let Ev::List(s, _) = e { Some(s.clone()) } else { None })
                        .collect();
                    let had_error = evs
                        .iter()
                        .any(|e| matches!(e, Ev::Errors(es) if es.iter().any(|x| !x.text.starts_with("?BREAK"))));
                    match r.bounds() {
                        None => {
                            w.stats.bump("c15.list_rejected_form");
                            if !had_error || !listed.is_empty() {
                                fail = Some(Violation {
                                    key: "C15:bad-range-listed".into(),
                                    detail: format!("op {}: LIST{} printed {:?}, error reported: {}", opi, r.text(), listed, had_error),
                                });
                            }
                        }
                        Some((a, b)) => {
                            let expect: Vec<String> = model.range(a..=b).map(|(k, t)| format!("{} {}", k, t)).collect();
                            let interrupted = o.intr_fired > 0;
                            if interrupted {
                                w.stats.bump("fault.list_interrupted");
                                // a prefix of the expected lines
                                if listed.len() > expect.len() || listed[..] != expect[..listed.len()] {
                                    fail = Some(Violation {
                                        key: "C15:interrupted-list-not-a-prefix".into(),
                                        detail: format!("op {}: LIST{} printed {:?}, expected a prefix of {:?}", opi, r.text(), listed, expect),
                                    });
                                }
                            } else {
                                w.stats.bump("c15.list_complete");
                                if !expect.is_empty() {
                                    w.stats.bump("c15.list_nonempty");
                                }
                                if listed != expect || had_error {
                                    fail = Some(Violation {
                                        key: "C15:list-range".into(),
                                        detail: format!("op {}: LIST{} printed {:?}, expected {:?} (error: {})", opi, r.text(), listed, expect, had_error),
                                    });
                                }
                            }
                        }
                    }
                }
                Op::ListLoad(r) => {
                    let mut io = LineIo::budget(5000);
                    io.max_slices = 400;
                    io.host_load_after_list = Some((0, "H".into()));
                    w.disk.insert("H".into(), HOST_FILE.iter().map(|(n, t)| format!("{} {}", n, t)).collect());
                    let o = w.line(&format!("LIST{}", r.text()), &io);
                    let evs = &w.events[o.ev_start..o.ev_end];
                    let loaded_at = evs.iter().position(|e| matches!(e, Ev::Load(_)));
                    let listed: Vec<String> = evs
                        .iter()
                        .filter_map(|e| if let Ev::List(s, _) = e { Some(s.clone()) } else { None })
                        .collect();
                    if let Some((a, b)) = r.bounds() {
                        let expect: Vec<String> = model.range(a..=b).map(|(k, t)| format!("{} {}", k, t)).collect();
                        match loaded_at {
                            Some(at) => {
                                // the load replaces the program and ends the listing: exactly the first line was
                                // listed, and no line of the new program is listed by a LIST nobody typed
                                let after = evs[at..].iter().filter(|e| matches!(e, Ev::List(..))).count();
                                if listed.len() != 1 || listed.first() != expect.first() || after != 0 {
                                    fail = Some(Violation {
                                        key: "C15:list-continues-after-host-load".into(),
                                        detail: format!("op {}: LIST{} with a host load after its first line printed {:?} ({} after the load); range held {:?}", opi, r.text(), listed, after, expect),
                                    });
                                }
                                model.clear();
                                for (n, t) in HOST_FILE {
                                    model.insert(*n, t.to_string());
                                }
                                w.stats.bump("c15.host_load_mid_list");
                            }
                            None => {
                                if listed != expect {
                                    fail = Some(Violation {
                                        key: "C15:list-range".into(),
                                        detail: format!("op {}: LIST{} printed {:?}, expected {:?}", opi, r.text(), listed, expect),
                                    });
                                }
                            }
                        }
                    }
                }
                Op::Tab(n) => {
                    let got = w.tab(*n as usize);
                    let expect = if *n <= 65529 {
                        model.get(n).map(|t| format!("{} {}", n, t))
                    } else {
                        None
                    };
                    if w.fatal.is_none() && got != expect {
                        fail = Some(Violation {
                            key: "C15:tab-lookup".into(),
                            detail: format!("op {}: completion of {} gave {:?}, expected {:?}", opi, n, got, expect),
                        });
                    }
                }
                Op::Snap => {
                    w.snap_take();
                    snap_models.push(Some(render(&model)));
                    if let Some(Some((_, t))) = w.snaps.last() {
                        if *t != render(&model) {
                            fail = Some(Violation {
                                key: "C15:snapshot-differs-from-model".into(),
                                detail: format!("op {}: snapshot rendered {:?}, model {:?}", opi, t, render(&model)),
                            });
                        }
                    }
                }
                Op::SnapDrop(i) => {
                    w.snap_drop(*i);
                    if let Some(s) = snap_models.get_mut(*i) {
                        *s = None;
                    }
                }
                Op::SnapCheck(i) => {
                    w.snap_check(*i);
                }
                Op::New => {
                    if w.snaps_alive() > 0 {
                        w.stats.bump("fault.live_snapshot_during_edit");
                    }
                    w.line("NEW", &LineIo::budget(200));
                    model.clear();
                    w.stats.bump("c15.new");
                }
                Op::Load(lines) => {
                    if w.snaps_alive() > 0 {
                        w.stats.bump("fault.live_snapshot_during_edit");
                    }
                    // the file may be unsorted, repeat a number (the later line wins), delete a line again
                    // with a bare number, or contain a direct statement (then nothing is loaded at all)
                    let file: Vec<String> = lines
                        .iter()
                        .map(|(n, t)| if t.is_empty() { n.to_string() } else if *n == u32::MAX { t.clone() } else { format!("{} {}", n, t) })
                        .collect();
                    w.disk.insert("F".into(), file);
                    w.line("LOAD \"F\"", &LineIo::budget(200));
                    if lines.iter().any(|(n, _)| *n == u32::MAX) {
                        w.stats.bump("c15.load_refused");
                    } else {
                        model.clear();
                        for (n, t) in lines {
                            if t.is_empty() {
                                model.remove(n);
                            } else {
                                model.insert(*n, t.clone());
                            }
                        }
                        w.stats.bump("c15.load");
                    }
                }
                Op::ProgList(r, intr_after) => {
                    // the range statement as line 3 of the stored program; lines 1-2 make sure it is reached
                    if let Some((a, b)) = r.bounds() {
                        let text = format!("LIST{}", r.text());
                        w.line(&format!("3 {}", text), &LineIo::budget(200));
                        model.insert(3, text);
                        let expect: Vec<String> = model.range(a..=b).map(|(k, t)| format!("{} {}", k, t)).collect();
                        let mut io = LineIo::budget(5000);
                        if let Some(j) = intr_after {
                            io.intrs.push(When::AfterList(*j));
                        }
                        let o = w.line("RUN 3", &io);
                        let mut listed: Vec<String> = w.events[o.ev_start..o.ev_end]
                            .iter()
                            .filter_map(|e| if let Ev::List(s, _) = e { Some(s.clone()) } else { None })
                            .collect();
                        if o.intr_fired > 0 {
                            w.stats.bump("fault.program_list_interrupted");
                            // an inspection LIST while stopped, then CONT: the program's LIST goes on where it was
                            w.line("LIST 3", &LineIo::budget(5000));
                            let o2 = w.line("CONT", &LineIo::budget(5000));
                            for e in &w.events[o2.ev_start..o2.ev_end] {
                                if let Ev::List(s, _) = e {
                                    listed.push(s.clone());
                                }
                            }
                        }
                        let blocked = w.events[o.ev_start..o.ev_end]
                            .iter()
                            .any(|e| matches!(e, Ev::Errors(es) if es.iter().any(|x| x.has_column())));
                        if blocked {
                            // the stored lines do not link (GOTO 10 without a line 10): nothing runs
                            w.stats.bump("c15.program_list_blocked_by_compile_error");
                            listed = expect.clone();
                        } else {
                            w.stats.bump("c15.program_list");
                        }
                        // what follows line 3 in the program may list / print more: only the prefix is LIST's
                        let n = expect.len().min(listed.len());
                        if listed.len() < expect.len() || listed[..n] != expect[..] {
                            fail = Some(Violation {
                                key: "C15:program-list-range".into(),
                                detail: format!("op {}: `3 LIST{}` + RUN 3 (interrupt after {:?}, LIST 3, CONT) listed {:?}, expected {:?} first", opi, r.text(), intr_after, listed, expect),
                            });
                        }
                        // leave the store as the model has it
                        w.line("3", &LineIo::budget(200));
                        model.remove(&3);
                    }
                }
            }
            // after every operation: store equals model, held snapshots unchanged
            if w.fatal.is_none() && fail.is_none() {
                for i in 0..w.snaps.len() {
                    w.snap_check(i);
                }
                let real = w.listing_text();
                if w.fatal.is_none() && real != render(&model) {
                    fail = Some(Violation {
                        key: format!("C15:store-differs-after-{}", op_name(op)),
                        detail: format!("after op {} ({:?}) the listing is {:?}, the model {:?}", opi, op, real, render(&model)),
                    });
                }
            }
        }
        if let Some(f) = &w.fatal {
            fail = Some(fatal_violation("C15", f));
        }
        v.violation = fail;
        v.stats.merge(&w.stats);
        v.instr = w.total_instr;
        v.sim_us = w.sim_us;
        v.executions = 1;
        v.fingerprint = w.log_hash;
        v.nontrivial = w.stats.get("c15.put") > 0 && self.ops.len() > 2;
        v
    }

    fn shrink(&self) -> Vec<Box<dyn Case>> {
        let mut out: Vec<Box<dyn Case>> = vec![];
        let n = self.ops.len();
        let mut chunk = n / 2;
        while chunk >= 1 {
            let mut start = 0;
            while start < n {
                let end = (start + chunk).min(n);
                let mut ops = self.ops.clone();
                ops.drain(start..end);
                out.push(Box::new(C15Case { ops, ..self.clone() }));
                start = end;
            }
            if chunk == 1 {
                break;
            }
            chunk /= 2;
        }
        for i in 0..n {
            match &self.ops[i] {
                Op::Put(nn, sp, t) if *sp != 0 || t != "END" => {
                    let mut ops = self.ops.clone();
                    ops[i] = Op::Put(*nn, 0, "END".to_string());
                    out.push(Box::new(C15Case { ops, ..self.clone() }));
                }
                Op::List(r, Some(_), m) => {
                    let mut ops = self.ops.clone();
                    ops[i] = Op::List(r.clone(), None, *m);
                    out.push(Box::new(C15Case { ops, ..self.clone() }));
                }
                _ => {}
            }
        }
        if self.sched_variant != 0 {
            out.push(Box::new(C15Case {
                sched_variant: 0,
                ..self.clone()
            }));
        }
        out
    }

    fn describe(&self) -> Json {
        let ops: Vec<Json> = self
            .ops
            .iter()
            .map(|op| match op {
                Op::Put(n, sp, t) => Json::Str(format!("type {:?}", put_text(*n, *sp, t))),
                Op::Bare(n) => Json::Str(format!("type {:?}", n.to_string())),
                Op::List(r, None, m) => Json::Str(format!("type {:?}", format!("{}LIST{}", if *m { "PRINT \"AB\";:" } else { "" }, r.text()))),
                Op::List(r, Some(j), m) => Json::Str(format!("type {:?}, Ctrl-C after List event {}", format!("{}LIST{}", if *m { "PRINT \"AB\";:" } else { "" }, r.text()), j)),
                Op::ListLoad(r) => Json::Str(format!("type {:?}; after the first List event the host loads {:?} with set_listing", format!("LIST{}", r.text()), HOST_FILE)),
                Op::Delete(r) => Json::Str(format!("type {:?}", format!("DELETE{}", r.text()))),
                Op::Tab(n) => Json::Str(format!("TAB completion lookup of {}", n)),
                Op::Snap => Json::Str("take and hold a get_listing() snapshot".into()),
                Op::SnapDrop(i) => Json::Str(format!("drop snapshot {}", i)),
                Op::SnapCheck(i) => Json::Str(format!("re-read snapshot {}", i)),
                Op::New => Json::Str("type \"NEW\"".into()),
                Op::Load(lines) => Json::Str(format!("put {:?} on the SimDisk and LOAD it", lines)),
                Op::ProgList(r, j) => Json::Str(format!("store `3 LIST{}`, RUN 3, Ctrl-C after List event {:?} then LIST 3 and CONT, delete line 3", r.text(), j)),
            })
            .collect();
        obj()
            .set("kind", "C15 edit/LIST/DELETE history against an ordered-map model")
            .set("ops", Json::Arr(ops))
            .set("quantum", ["5000", "1", "3"][self.sched_variant % 3])
            .build()
    }
}

fn op_name(op: &Op) -> &'static str {
    match op {
        Op::Put(..) => "numbered-line",
        Op::Bare(_) => "bare-number",
        Op::List(..) => "LIST",
        Op::ListLoad(_) => "LIST+host-load",
        Op::Delete(_) => "DELETE",
        Op::Tab(_) => "TAB",
        Op::Snap => "snapshot",
        Op::SnapDrop(_) => "snapshot-drop",
        Op::SnapCheck(_) => "snapshot-read",
        Op::New => "NEW",
        Op::Load(_) => "LOAD",
        Op::ProgList(..) => "program-LIST",
    }
}

impl Property for C15 {
    fn id(&self) -> &'static str {
        "C15"
    }
    fn generate(&self, rng: &mut Rng, _tier: Tier) -> Box<dyn Case> {
        let n = 2 + rng.below(18) as usize;
        let mut ops = vec![];
        let mut snaps = 0usize;
        for _ in 0..n {
            let op = match rng.below(100) {
                0..=34 => {
                    let num = if rng.pct(4) { *rng.pick(&[65530u32, 70000, 99999]) } else { number(rng) };
                    Op::Put(num, *rng.pick(&[0u8, 0, 0, 1, 2, 3, 4]), rng.pick::<&str>(TEXTS).to_string())
                }
                35..=46 => Op::Bare(if rng.pct(5) { 65530 } else { number(rng) }),
                47..=66 => {
                    let r = range(rng, true);
                    let intr = if rng.pct(25) { Some(rng.below(4) as usize) } else { None };
                    let midline = rng.pct(15);
                    // (no extra draw: the rarely reached "Ctrl-C after the fourth line" becomes the host load)
                    if intr == Some(3) && !midline {
                        Op::ListLoad(r)
                    } else {
                        Op::List(r, intr, midline)
                    }
                }
                67..=84 => Op::Delete(range(rng, true)),
                85..=89 => Op::Tab(operand(rng)),
                90..=93 => {
                    snaps += 1;
                    Op::Snap
                }
                94 if rng.pct(50) => Op::New,
                95 if rng.pct(40) => {
                    let k = rng.below(4) as usize;
                    let mut lines: Vec<(u32, String)> = vec![];
                    for _ in 0..k {
                        let n = *rng.pick(UNIVERSE);
                        if !lines.iter().any(|(m, _)| *m == n) {
                            lines.push((n, rng.pick::<&str>(TEXTS).to_string()));
                        }
                    }
                    if rng.pct(60) {
                        lines.sort();
                    } else {
                        // unsorted, with a repeated number, a bare number or a direct statement
                        if !lines.is_empty() && rng.pct(50) {
                            let n = lines[0].0;
                            lines.push((n, rng.pick::<&str>(TEXTS).to_string()));
                        }
                        if !lines.is_empty() && rng.pct(30) {
                            let n = lines[rng.usize(lines.len())].0;
                            lines.push((n, String::new()));
                        }
                        if rng.pct(15) {
                            let at = rng.usize(lines.len() + 1);
                            lines.insert(at, (u32::MAX, "PRINT 1".to_string()));
                        }
                    }
                    Op::Load(lines)
                }
                96 if rng.pct(60) => {
                    let r = range(rng, true);
                    let intr = if rng.pct(60) { Some(rng.below(3) as usize) } else { None };
                    Op::ProgList(r, intr)
                }
                94..=96 if snaps > 0 => Op::SnapDrop(rng.usize(snaps)),
                97..=99 if snaps > 0 => Op::SnapCheck(rng.usize(snaps)),
                _ => Op::Put(number(rng), 0, rng.pick::<&str>(TEXTS).to_string()),
            };
            ops.push(op);
        }
        Box::new(C15Case {
            ops,
            sched_variant: rng.usize(3),
            entropy: rng.next_u64(),
        })
    }
    fn budget(&self, tier: Tier) -> Budget {
        match tier {
            Tier::Quick => Budget {
                runs: 1_500_000,
                watchdog_s: 60,
            },
            Tier::Thorough => Budget {
                runs: 40_000_000,
                watchdog_s: 60,
            },
        }
    }
    fn rule(&self) -> &'static str {
        "one evaluation = one history of 2-19 operations (numbered lines in 5 spellings, bare numbers, LIST and DELETE in the forms n / n- / -n / a-b / bare / inverted / operand above 65529, TAB completion lookups, NEW, LOAD of a small file from the SimDisk (sorted or not, with repeated numbers, bare numbers, or a direct statement that makes the whole load fail), a LIST statement stored in the program and run with Ctrl-C after the j-th listed line + a direct LIST + CONT, snapshots taken, re-read and dropped, Ctrl-C after the j-th listed line, a host-initiated set_listing() right after the first listed line of a direct LIST) over line numbers drawn with a small-universe bias {0,1,2,9,10,11,100,65528,65529}; the ordered-map model is compared with get_listing() after every operation; distinct = distinct API/event log fingerprint; non-trivial = at least one accepted numbered line and more than 2 operations"
    }
    fn assumptions(&self) -> Vec<&'static str> {
        vec![
            "DELETE 0-65529 / DELETE 0- / DELETE -65529 (whole program written as a range) is not judged: the manual does not say whether the bare-DELETE rule applies",
            "statement texts are canonical spellings whose listing is a fixed point (listing fidelity is C05, not claimed)",
            "seeded sampling with a small-universe bias, not exhaustive enumeration of the small universe (that would be model checking)",
        ]
    }
    fn required_probes(&self) -> Vec<&'static str> {
        vec![
            "c15.put",
            "c15.bare_delete_present",
            "c15.bare_delete_absent",
            "c15.delete_range_nonempty",
            "c15.list_nonempty",
            "fault.list_interrupted",
            "fault.live_snapshot_during_edit",
            "c15.delete_rejected_form",
            "c15.list_rejected_form",
            "c15.new",
            "c15.load",
            "c15.program_list",
            "c15.list_with_cursor_mid_line",
            "fault.program_list_interrupted",
        ]
    }
}
