pub mod c01;
pub mod c03;
pub mod c04;
pub mod c12;
pub mod c13;
pub mod c14;
pub mod c15;
pub mod c18;
pub mod c19;
pub mod c20;
pub mod refprops;

use crate::framework::Property;

pub static ALL: &[&dyn Property] = &[&c01::C01, &c03::C03, &refprops::C06, &refprops::C09, &refprops::C10, &refprops::C11, &refprops::C17, &c04::C04, &c12::C12, &c13::C13, &c14::C14, &c15::C15, &c18::C18, &c19::C19, &c20::C20];

pub fn lookup(id: &str) -> Option<&'static dyn Property> {
    ALL.iter().copied().find(|p| p.id() == id)
}
