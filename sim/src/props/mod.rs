pub mod c03;
pub mod c13;

use crate::framework::Property;

pub static ALL: &[&dyn Property] = &[&c03::C03, &c13::C13];

pub fn lookup(id: &str) -> Option<&'static dyn Property> {
    ALL.iter().copied().find(|p| p.id() == id)
}
