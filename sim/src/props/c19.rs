//! C19 - compile-time diagnostics point into the listed line and block execution.
//!
//! A clean generated program is typed (and optionally run and stopped, so that
//! frames, a CONT point and user functions are pending), then damaged by edits:
//! dangling references in every referencing statement form, stray WHILE / WEND,
//! token-level syntax damage, each optionally preceded on its line by ASCII or
//! multi-byte text. Then one *door* into the program is tried (RUN, RUN n,
//! GOTO n, GOSUB n, ON..GOTO, ON..GOSUB, IF..THEN n, CONT, RETURN, NEXT, a call
//! of a user function the earlier run defined, load-and-run from the SimDisk)
//! with tracing on. Oracles:
//!  (i)  every diagnostic names an existing line and a character range inside its
//!       listed text; UNDEFINED LINE ranges spell a missing number, WHILE/WEND
//!       ranges spell the keyword; LIST underlines exactly the reported ranges;
//!       every planted fault is reported by RUN;
//!  (ii) through the door no program line runs: no trace token, no output, no
//!       prompt, no variable changed;
//!  (iii) harmless direct statements still work.

use crate::ast::*;
use crate::framework::*;
use crate::gen::{gen_program, GenCfg};
use crate::json::{obj, Json};
use crate::prng::Rng;
use crate::props::c03::fatal_violation;
use crate::refbasic::Ref;
use crate::session::*;
use crate::world::*;
use std::collections::BTreeMap;

pub struct C19;

#[derive(Clone, Debug, PartialEq)]
enum Fault {
    /// a statement referring to a line that does not exist
    Dangling(&'static str),
    StrayWhile,
    StrayWend,
    Syntax(&'static str),
}

#[derive(Clone, Debug)]
struct Damage {
    fault: Fault,
    /// index of the program line in front of which the new line goes (len = after the last)
    at: usize,
    /// append to the existing line `at` (as its first statement) instead of a new line
    into_existing: bool,
    /// 0 nothing, 1 ASCII statement, 2 multi-byte statement, 3 both in front of the fault
    prefix: u8,
}

#[derive(Clone, Debug, PartialEq)]
enum Door {
    Run,
    RunN,
    Goto,
    Gosub,
    OnGoto,
    OnGosub,
    IfThen,
    ForGosub,
    Cont,
    Return,
    Next,
    FnCall,
    LoadRun,
}

#[derive(Clone)]
struct C19Case {
    prog: Program,
    /// RUN of the clean program first: None, Some(None) = to its end, Some(Some(k)) = Ctrl-C after k instructions
    pre_run: Option<Option<u64>>,
    damages: Vec<Damage>,
    door: Door,
    door_line: usize,
    /// type CONT after the (refused) door: nothing may have been left to continue into the program
    cont_after: bool,
    /// the door is typed behind `PRINT "X";:` (the refusal arrives with the cursor mid-line)
    door_prefix: bool,
    /// the damage is done by the program itself: its first line DELETEs the target of a later GOTO
    /// (numbers of the GOTO line and of the deleted line); the clean program is RUN first
    self_delete: Option<(u16, u16)>,
    replies: Vec<String>,
    sched_variant: usize,
    entropy: u64,
}

fn sched(v: usize) -> Sched {
    match v % 4 {
        0 => Sched::fixed(DEFAULT_Q),
        1 => Sched::fixed(1),
        2 => Sched::fixed(3),
        _ => Sched::list((0..200).map(|i| if i % 2 == 0 { 1 } else { 17 }).collect(), DEFAULT_Q),
    }
}

const SYNTAX: &[&str] = &["PRINT (", "FOR =1 TO 2", "NEXT +", "IF THEN", "A=", "GOTO", "DIM Q(", "ON GOTO 10", "PRINT 1+*2", "LET 5=A", "INPUT ;", "READ 5"];

/// What the damaged program looks like and what was planted where.
struct Damaged {
    prog: Program,
    /// indices (into the damaged program) of lines that are new or changed
    touched: Vec<usize>,
    /// (line number, fault)
    planted: Vec<(u16, Fault, Option<u16>)>,
}

fn absent_number(p: &Program, salt: usize) -> u16 {
    // a number no line has (also not after the damage: new lines get numbers adjacent to existing ones,
    // so stay far away from every existing number)
    let nums: Vec<u16> = p.lines.iter().map(|l| l.num).collect();
    let cands = [64000u16, 64123, 59999, 31999, 9, 65529, 12345, 777, 60606, 4];
    for k in 0..cands.len() {
        let c = cands[(k + salt) % cands.len()];
        if nums.iter().all(|n| (*n as i32 - c as i32).abs() > 40) {
            return c;
        }
    }
    63000
}

fn fault_stmt(f: &Fault, absent: u16) -> Stmt {
    let t = Target::Abs(absent);
    match f {
        Fault::Dangling(form) => match *form {
            "Goto" => Stmt::Goto(t),
            "Gosub" => Stmt::Gosub(t),
            "IfThen" => Stmt::If {
                cond: Expr::var("N%"),
                goto_form: false,
                then: Branch::Line(t),
                els: None,
            },
            "IfElse" => Stmt::If {
                cond: Expr::var("N%"),
                goto_form: false,
                then: Branch::Stmts(vec![Stmt::Let {
                    kw: false,
                    target: LVal::scalar("N%"),
                    expr: Expr::Int(1),
                }]),
                els: Some(Branch::Line(t)),
            },
            "IfGoto" => Stmt::If {
                cond: Expr::var("N%"),
                goto_form: true,
                then: Branch::Line(t),
                els: None,
            },
            "OnGoto" => Stmt::OnGoto(Expr::var("N%"), vec![Target::L(0), t]),
            "OnGosub" => Stmt::OnGosub(Expr::var("N%"), vec![t, Target::L(0)]),
            "Restore" => Stmt::Restore(Some(t)),
            _ => Stmt::Run(Some(t)),
        },
        Fault::StrayWhile => Stmt::While(Expr::var("N%")),
        Fault::StrayWend => Stmt::Wend,
        Fault::Syntax(s) => Stmt::Raw(s.to_string()),
    }
}

fn prefix_stmts(prefix: u8) -> Vec<Stmt> {
    let mut v = vec![];
    if prefix & 1 != 0 {
        v.push(Stmt::Let {
            kw: false,
            target: LVal::scalar("S$"),
            expr: Expr::Str("ab:cd GOTO 5".into()),
        });
    }
    if prefix & 2 != 0 {
        v.push(Stmt::Let {
            kw: false,
            target: LVal::scalar("Z$"),
            expr: Expr::Str("日本é→".into()),
        });
    }
    v
}

impl C19Case {
    fn damaged(&self) -> Damaged {
        let base = &self.prog;
        // new line numbers: one below the line it goes in front of (if free), or above the last
        let mut p = base.clone();
        let mut touched_nums: Vec<u16> = vec![];
        let mut planted: Vec<(u16, Fault, Option<u16>)> = vec![];
        let mut extra_after_last = 0u16;
        for (k, d) in self.damages.iter().enumerate() {
            let absent = absent_number(base, k);
            let st = fault_stmt(&d.fault, absent);
            let spelled = if matches!(d.fault, Fault::Dangling(_)) { Some(absent) } else { None };
            let mut stmts = prefix_stmts(d.prefix);
            stmts.push(st);
            let existing_ok = d.into_existing
                && d.at < base.lines.len()
                && matches!(d.fault, Fault::Dangling(f) if !f.starts_with("If"))
                && !touched_nums.contains(&base.lines[d.at].num);
            if existing_ok {
                let num = base.lines[d.at].num;
                if let Some(l) = p.lines.iter_mut().find(|l| l.num == num) {
                    let mut all = stmts;
                    all.extend(l.stmts.clone());
                    l.stmts = all;
                    touched_nums.push(num);
                    planted.push((num, d.fault.clone(), spelled));
                }
                continue;
            }
            // stray WHILE / WEND only in front of the first or behind the last line, so that the
            // program's own WHILE/WEND pairs still match each other
            let at = if matches!(d.fault, Fault::StrayWend) {
                if d.at % 2 == 0 {
                    0
                } else {
                    base.lines.len()
                }
            } else if matches!(d.fault, Fault::StrayWhile) {
                // in front of the program it would capture the program's first WEND
                base.lines.len()
            } else {
                d.at.min(base.lines.len())
            };
            let num = if at < base.lines.len() {
                let n = base.lines[at].num;
                let prev = if at == 0 { None } else { Some(base.lines[at - 1].num) };
                if n > 0 && prev.map(|x| x < n - 1).unwrap_or(true) && !p.lines.iter().any(|l| l.num == n - 1) {
                    Some(n - 1)
                } else {
                    None
                }
            } else {
                None
            };
            let num = match num {
                Some(n) => n,
                None => {
                    extra_after_last += 1;
                    let last = base.lines.last().map(|l| l.num).unwrap_or(0);
                    if last as u32 + extra_after_last as u32 > 65529 {
                        continue;
                    }
                    last + extra_after_last
                }
            };
            p.lines.push(Line { num, stmts });
            touched_nums.push(num);
            planted.push((num, d.fault.clone(), spelled));
        }
        if let Some((y, z)) = self.self_delete {
            // the program has deleted line z itself (pre-run): the GOTO z in line y dangles now
            p.lines.retain(|l| l.num != z);
            planted.push((y, Fault::Dangling("Goto"), Some(z)));
        }
        // Target::L indices refer to the base program: resolve them to numbers before sorting
        let base_nums: Vec<u16> = base.lines.iter().map(|l| l.num).collect();
        crate::gen::map_targets(&mut p, &mut |t| {
            if let Target::L(i) = t {
                *t = Target::Abs(base_nums.get(*i).copied().unwrap_or(65529));
            }
        });
        p.lines.sort_by_key(|l| l.num);
        let touched = (0..p.lines.len()).filter(|i| touched_nums.contains(&p.lines[*i].num)).collect();
        Damaged { prog: p, touched, planted }
    }

    fn door_text(&self, d: &Damaged) -> String {
        let t = self.door_text_plain(d);
        if self.door_prefix && matches!(self.door, Door::Run | Door::RunN | Door::Goto | Door::Gosub | Door::OnGoto | Door::OnGosub | Door::IfThen) {
            format!("PRINT \"X\";:{}", t)
        } else {
            t
        }
    }

    fn door_text_plain(&self, d: &Damaged) -> String {
        let nums: Vec<u16> = self.prog.lines.iter().map(|l| l.num).collect();
        let n = if nums.is_empty() { 10 } else { nums[self.door_line % nums.len()] };
        match self.door {
            Door::Run => "RUN".into(),
            Door::RunN => format!("RUN {}", n),
            Door::Goto => format!("GOTO {}", n),
            Door::Gosub => format!("GOSUB {}", n),
            Door::OnGoto => format!("ON 1 GOTO {}", n),
            Door::OnGosub => format!("ON 1 GOSUB {}", n),
            Door::IfThen => format!("IF 1 THEN {}", n),
            Door::ForGosub => format!("FOR QQ%=1 TO 2:GOSUB {}:NEXT", n),
            Door::Cont => "CONT".into(),
            Door::Return => "RETURN".into(),
            Door::Next => "NEXT".into(),
            Door::FnCall => {
                let mut call = "PRINT 1".to_string();
                for l in &self.prog.lines {
                    crate::gen::walk_stmts(&l.stmts, &mut |s| {
                        if let Stmt::DefFn { name, params, .. } = s {
                            let args: Vec<String> = params
                                .iter()
                                .map(|v| if v.sfx == Some('$') { "\"x\"".to_string() } else { "1".to_string() })
                                .collect();
                            call = format!("PRINT FN{}({})", name.text(), args.join(","));
                        }
                    });
                }
                call
            }
            Door::LoadRun => {
                let _ = d;
                "RUN \"DAMAGED\"".into()
            }
        }
    }
}

fn chars_between(s: &str, a: usize, b: usize) -> String {
    s.chars().skip(a).take(b.saturating_sub(a)).collect()
}

/// Pointing invariants of one diagnostic against the listing (`num -> listed text`).
fn check_diag(e: &ErrInfo, listing: &BTreeMap<u16, String>) -> Option<(String, String)> {
    let code = e.text.split(" IN ").next().unwrap_or("").to_string();
    let n = match e.line {
        Some(n) => n,
        None => return None, // the direct line
    };
    let text = match listing.get(&n) {
        Some(t) => t,
        None => {
            return Some((
                "C19:diagnostic:line-does-not-exist".into(),
                format!("{:?} names line {} which is not in the listing", e.text, n),
            ))
        }
    };
    let len = text.chars().count();
    let (a, b) = e.col;
    if a > b || b > len {
        return Some((
            "C19:diagnostic:range-outside-line".into(),
            format!("{:?}: range {}..{} does not lie inside {:?} ({} characters)", e.text, a, b, text, len),
        ));
    }
    let prefix_len = n.to_string().len() + 1;
    if a < prefix_len && !(a == b && a == 0) {
        return Some((
            "C19:diagnostic:range-in-line-number".into(),
            format!("{:?}: range {}..{} starts inside the line-number prefix of {:?}", e.text, a, b, text),
        ));
    }
    let spelled = chars_between(text, a, b);
    match code.as_str() {
        "?UNDEFINED LINE" => {
            let ok = !spelled.is_empty()
                && spelled.chars().all(|c| c.is_ascii_digit())
                && spelled.parse::<u32>().map(|m| m > 65529 || !listing.contains_key(&(m as u16))).unwrap_or(false);
            // the number must be delimited: not part of a longer digit string
            let before = if a > 0 { text.chars().nth(a - 1) } else { None };
            let after = text.chars().nth(b);
            let delimited = !before.map(|c| c.is_ascii_digit()).unwrap_or(false) && !after.map(|c| c.is_ascii_digit()).unwrap_or(false);
            if !(ok && delimited) {
                return Some((
                    "C19:diagnostic:undefined-line-range".into(),
                    format!("{:?}: range {}..{} of {:?} spells {:?}, not exactly a missing line number", e.text, a, b, text, spelled),
                ));
            }
        }
        "?WHILE WITHOUT WEND" => {
            if spelled != "WHILE" {
                return Some((
                    "C19:diagnostic:while-range".into(),
                    format!("{:?}: range {}..{} of {:?} spells {:?}, not WHILE", e.text, a, b, text, spelled),
                ));
            }
        }
        "?WEND WITHOUT WHILE" => {
            if spelled != "WEND" {
                return Some((
                    "C19:diagnostic:wend-range".into(),
                    format!("{:?}: range {}..{} of {:?} spells {:?}, not WEND", e.text, a, b, text, spelled),
                ));
            }
        }
        _ => {}
    }
    None
}

impl Case for C19Case {
    fn execute(&self) -> Verdict {
        let mut v = Verdict::default();
        let clean = render_program(&self.prog);
        let mut w = World::booted(sched(self.sched_variant), self.entropy, false);
        enter_program(&mut w, &clean);
        let mut reply_pos = 0usize;
        let pre_run = if self.self_delete.is_some() { Some(None) } else { self.pre_run };
        if let Some(k) = pre_run {
            let mut io = LineIo {
                replies: self.replies.clone(),
                max_instr: 5000,
                ..Default::default()
            };
            if let Some(k) = k {
                io.intrs.push(When::Instr(k));
            }
            let o = w.line("RUN", &io);
            reply_pos += replies_used(&w.events[o.ev_start..o.ev_end]);
            let p = w.rt.verif_probe();
            if p.stack_returns > 0 || p.stack_nexts > 0 {
                w.stats.bump("c19.pre_run_left_frames");
            }
            if p.cont != "Stopped" {
                w.stats.bump("c19.pre_run_left_cont_point");
            }
            if p.functions_len > 0 {
                w.stats.bump("c19.pre_run_defined_functions");
            }
        }
        let d = self.damaged();
        let damaged_lines = render_program(&d.prog);
        let mut fail: Option<Violation> = None;
        if d.planted.is_empty() {
            v.discarded = Some("no damage could be placed".into());
        }
        for i in &d.touched {
            w.line(&damaged_lines[*i], &LineIo::budget(200));
        }
        let listing_text = w.listing_text();
        let listed: Vec<String> = listing_text.lines().map(|s| s.to_string()).collect();
        if listed != damaged_lines && v.discarded.is_none() {
            v.discarded = Some("listing of the damaged program is not what was typed".into());
        }
        let mut listing: BTreeMap<u16, String> = BTreeMap::new();
        for l in &listed {
            if let Some(n) = l.split(' ').next().and_then(|x| x.parse::<u16>().ok()) {
                listing.insert(n, l.clone());
            }
        }
        let after_damage = w.events.len();
        let judged = v.discarded.is_none();
        // (iii) harmless direct statements
        let harmless = |w: &mut World, fail: &mut Option<Violation>, tag: &str| {
            let o = w.line("PRINT 1+1;\"OK\"", &LineIo::budget(200));
            let t = tokens(&w.events[o.ev_start..o.ev_end]);
            if t != vec![Tok::Out(" 2 OK\n".into())] && fail.is_none() && w.fatal.is_none() {
                *fail = Some(Violation {
                    key: "C19:harmless-direct-statement".into(),
                    detail: format!("PRINT 1+1;\"OK\" typed {} gave {:?}", tag, t),
                });
            }
        };
        if judged {
            if self.entropy % 3 == 0 {
                // a direct line that is refused at compile time itself (with WHILE / WEND / a dangling
                // branch in it) is reported and leaves nothing behind for the next direct line
                const POISON: [&str; 6] = [
                    "WHILE X<3:DIM A",
                    "WEND:DIM A",
                    "FOR I=1 TO 2:WHILE 1:DIM A",
                    "WHILE 1:PRINT (",
                    "WHILE 1:GOTO 64999",
                    "WEND",
                ];
                let line = POISON[((self.entropy / 3) % 6) as usize];
                let o = w.line(line, &LineIo::budget(200));
                let t = tokens(&w.events[o.ev_start..o.ev_end]);
                w.stats.bump("c19.refused_direct_line");
                if !matches!(t.as_slice(), [Tok::Err(_), ..]) && fail.is_none() && w.fatal.is_none() {
                    fail = Some(Violation {
                        key: "C19:refused-direct-line:not-reported".into(),
                        detail: format!("{:?} typed on the damaged program gave {:?}", line, t),
                    });
                }
            }
            harmless(&mut w, &mut fail, "after the damage");
            w.line("TRON", &LineIo::budget(100));
            let probes = probe_lines(&self.prog);
            let p0 = run_probes(&mut w, &probes);
            if self.door == Door::LoadRun {
                w.disk.insert("DAMAGED".into(), damaged_lines.clone());
            }
            let door = self.door_text(&d);
            if self.self_delete.is_some() {
                w.stats.bump("c19.self_deleting_program");
            }
            if door.starts_with("PRINT \"X\";:") {
                w.stats.bump("c19.door_with_cursor_mid_line");
            }
            let io = LineIo {
                replies: self.replies[reply_pos.min(self.replies.len())..].to_vec(),
                max_instr: 5000,
                ..Default::default()
            };
            let o = w.line(&door, &io);
            let evs = w.events[o.ev_start..o.ev_end].to_vec();
            w.stats.bump(match self.door {
                Door::Run => "c19.door.run",
                Door::RunN => "c19.door.run_n",
                Door::Goto => "c19.door.goto",
                Door::Gosub => "c19.door.gosub",
                Door::OnGoto => "c19.door.on_goto",
                Door::OnGosub => "c19.door.on_gosub",
                Door::IfThen => "c19.door.if_then",
                Door::ForGosub => "c19.door.for_gosub",
                Door::Cont => "c19.door.cont",
                Door::Return => "c19.door.return",
                Door::Next => "c19.door.next",
                Door::FnCall => "c19.door.fn_call",
                Door::LoadRun => "c19.door.load_run",
            });
            // (ii) nothing of the program ran
            let mut ran: Option<String> = None;
            let mut prefix_seen = false;
            for e in &evs {
                match e {
                    Ev::Print(s) if is_ready_print(s) => {}
                    // the door's own `PRINT "X";` and the line break in front of the report
                    Ev::Print(s) if door.starts_with("PRINT \"X\";:") && !prefix_seen && s == "X" => prefix_seen = true,
                    Ev::Print(s) if door.starts_with("PRINT \"X\";:") && prefix_seen && s == "\n" => {}
                    Ev::Print(s) => {
                        // a direct PRINT FNx(..) may print the function's value; a trace token never
                        if self.door == Door::FnCall && !s.contains('[') {
                            continue;
                        }
                        ran = Some(format!("printed {:?}", s));
                        break;
                    }
                    Ev::Input(p, _) => {
                        ran = Some(format!("asked for input {:?}", p));
                        break;
                    }
                    Ev::List(l, _) => {
                        ran = Some(format!("listed {:?}", l));
                        break;
                    }
                    Ev::Inkey | Ev::Cls | Ev::Save(_) => {
                        ran = Some(format!("{:?}", e));
                        break;
                    }
                    _ => {}
                }
            }
            if let Some(what) = ran {
                if fail.is_none() && w.fatal.is_none() {
                    fail = Some(Violation {
                        key: format!("C19:blocked:{:?}:program-ran", self.door),
                        detail: format!("{:?} on a program with compile-time errors {} (listing {:?})", door, what, listed),
                    });
                }
            }
            if self.cont_after {
                w.stats.bump("c19.cont_after_door");
                let o = w.line("CONT", &io);
                for e in &w.events[o.ev_start..o.ev_end] {
                    let what = match e {
                        Ev::Print(s) if is_ready_print(s) => None,
                        Ev::Print(s) => Some(format!("printed {:?}", s)),
                        Ev::Input(p, _) => Some(format!("asked for input {:?}", p)),
                        Ev::List(l, _) => Some(format!("listed {:?}", l)),
                        _ => None,
                    };
                    if let Some(what) = what {
                        if fail.is_none() && w.fatal.is_none() {
                            fail = Some(Violation {
                                key: format!("C19:blocked:{:?}+CONT:program-ran", self.door),
                                detail: format!("{:?} then CONT on a program with compile-time errors {} (listing {:?})", door, what, listed),
                            });
                        }
                        break;
                    }
                }
            }
            if evs.iter().any(|e| matches!(e, Ev::Errors(es) if es.iter().any(|x| x.has_column()))) {
                w.stats.bump("c19.door_reported_diagnostics");
            }
            // variables: RUN-like doors clear them (CLEAR is part of RUN, not a program line)
            let p1 = run_probes(&mut w, &probes);
            let run_like = matches!(self.door, Door::Run | Door::RunN | Door::LoadRun);
            if !run_like && p1 != p0 && fail.is_none() && w.fatal.is_none() {
                fail = Some(Violation {
                    key: format!("C19:blocked:{:?}:variables-changed", self.door),
                    detail: format!("{:?}: {}", door, first_diff(&p0, &p1)),
                });
            }
            // a direct statement that fails (still under TRON) is reported without a line number and
            // traces nothing; an interrupted direct loop breaks without a line number
            let o = w.line("PRINT CHR$(-1)", &LineIo::budget(200));
            let t = tokens(&w.events[o.ev_start..o.ev_end]);
            let ok = matches!(t.as_slice(), [Tok::Err(e)] if e == "?OVERFLOW");
            if !ok && fail.is_none() && w.fatal.is_none() {
                fail = Some(Violation {
                    key: "C19:failing-direct-statement".into(),
                    detail: format!("PRINT CHR$(-1) typed after the door (TRON on) gave {:?}", t),
                });
            }
            w.line("TROFF", &LineIo::budget(100));
            harmless(&mut w, &mut fail, "after the door");
            let io_brk = LineIo {
                intrs: vec![When::Instr(15)],
                max_instr: 200,
                ..Default::default()
            };
            let o = w.line("WHILE 1:WEND", &io_brk);
            let brk: Vec<String> = w.events[o.ev_start..o.ev_end]
                .iter()
                .filter_map(|e| if let Ev::Errors(es) = e { Some(es.iter().map(|x| x.text.clone()).collect::<Vec<_>>()) } else { None })
                .flatten()
                .collect();
            if brk != vec!["?BREAK".to_string()] && fail.is_none() && w.fatal.is_none() {
                fail = Some(Violation {
                    key: "C19:interrupted-direct-loop".into(),
                    detail: format!("WHILE 1:WEND typed after the door and interrupted after 15 instructions reported {:?}", brk),
                });
            }
            // (i) completeness: RUN reports every planted fault
            let o = w.line("RUN", &LineIo::budget(5000));
            let mut reported: Vec<ErrInfo> = vec![];
            for e in &w.events[o.ev_start..o.ev_end] {
                if let Ev::Errors(es) = e {
                    reported.extend(es.iter().cloned());
                }
            }
            let any_syntax = d.planted.iter().any(|(_, f, _)| matches!(f, Fault::Syntax(_)));
            for (num, f, spelled) in &d.planted {
                if any_syntax && !matches!(f, Fault::Syntax(_)) {
                    continue; // link-time diagnostics are not produced while a line does not parse
                }
                let found = reported.iter().any(|e| {
                    e.line == Some(*num)
                        && match f {
                            Fault::Dangling(_) => {
                                e.text.starts_with("?UNDEFINED LINE")
                                    && listing
                                        .get(num)
                                        .map(|t| Some(chars_between(t, e.col.0, e.col.1)) == spelled.map(|s| s.to_string()))
                                        .unwrap_or(false)
                            }
                            Fault::StrayWhile => e.text.starts_with("?WHILE WITHOUT WEND"),
                            Fault::StrayWend => e.text.starts_with("?WEND WITHOUT WHILE"),
                            Fault::Syntax(_) => e.has_column(),
                        }
                });
                if !found && fail.is_none() && w.fatal.is_none() {
                    fail = Some(Violation {
                        key: format!(
                            "C19:diagnostic:planted-fault-not-reported:{}",
                            match f {
                                Fault::Dangling(k) => k,
                                Fault::StrayWhile => "StrayWhile",
                                Fault::StrayWend => "StrayWend",
                                Fault::Syntax(_) => "Syntax",
                            }
                        ),
                        detail: format!(
                            "RUN reported {:?}; the fault planted in line {:?} is not among them",
                            reported.iter().map(|e| e.text.clone()).collect::<Vec<_>>(),
                            listing.get(num)
                        ),
                    });
                }
            }
            for e in &reported {
                if e.has_column() && !d.planted.iter().any(|(n, _, _)| e.line == Some(*n)) && fail.is_none() {
                    fail = Some(Violation {
                        key: "C19:diagnostic:unplanted".into(),
                        detail: format!("{:?} reported for a line that carries no planted fault ({:?})", e.text, e.line.and_then(|n| listing.get(&n))),
                    });
                }
            }
            // LIST underlines exactly the reported ranges
            let o = w.line("LIST", &LineIo::budget(5000));
            for e in &w.events[o.ev_start..o.ev_end] {
                if let Ev::List(text, cols) = e {
                    let n = text.split(' ').next().and_then(|x| x.parse::<u16>().ok());
                    let mut want: Vec<(usize, usize)> = reported.iter().filter(|r| r.has_column() && r.line == n).map(|r| r.col).collect();
                    let mut got = cols.clone();
                    want.sort();
                    got.sort();
                    if want != got && fail.is_none() {
                        fail = Some(Violation {
                            key: "C19:list-underline-differs".into(),
                            detail: format!("LIST shows {:?} with ranges {:?}; RUN reported ranges {:?} for that line", text, got, want),
                        });
                    }
                }
            }
            // pointing invariants over every diagnostic seen since the damage
            for e in &w.events[after_damage..] {
                if let Ev::Errors(es) = e {
                    for x in es {
                        if x.has_column() {
                            w.stats.counters.entry("c19.diagnostics_checked").and_modify(|c| *c += 1).or_insert(1);
                            if let Some((key, detail)) = check_diag(x, &listing) {
                                if fail.is_none() {
                                    fail = Some(Violation { key, detail });
                                }
                            }
                        }
                    }
                }
            }
            for (_, f, _) in &d.planted {
                w.stats.bump(match f {
                    Fault::Dangling("Goto") => "c19.fault.goto",
                    Fault::Dangling("Gosub") => "c19.fault.gosub",
                    Fault::Dangling("IfThen") => "c19.fault.if_then",
                    Fault::Dangling("IfElse") => "c19.fault.if_else",
                    Fault::Dangling("IfGoto") => "c19.fault.if_goto",
                    Fault::Dangling("OnGoto") => "c19.fault.on_goto",
                    Fault::Dangling("OnGosub") => "c19.fault.on_gosub",
                    Fault::Dangling("Restore") => "c19.fault.restore",
                    Fault::Dangling(_) => "c19.fault.run_n",
                    Fault::StrayWhile => "c19.fault.stray_while",
                    Fault::StrayWend => "c19.fault.stray_wend",
                    Fault::Syntax(_) => "c19.fault.syntax",
                });
            }
            if self.damages.iter().any(|x| x.prefix & 2 != 0) {
                w.stats.bump("c19.multibyte_text_before_fault");
            }
        }
        if let Some(f) = &w.fatal {
            fail = Some(fatal_violation("C19", f));
        }
        v.violation = fail;
        v.stats.merge(&w.stats);
        v.instr = w.total_instr;
        v.sim_us = w.sim_us;
        v.executions = 1;
        v.fingerprint = w.log_hash;
        v.nontrivial = judged;
        v
    }

    fn shrink(&self) -> Vec<Box<dyn Case>> {
        let mut out: Vec<Box<dyn Case>> = vec![];
        for i in 0..self.damages.len() {
            if self.damages.len() > 1 {
                let mut d = self.damages.clone();
                d.remove(i);
                out.push(Box::new(C19Case {
                    damages: d,
                    ..self.clone()
                }));
            }
        }
        if self.pre_run.is_some() {
            out.push(Box::new(C19Case {
                pre_run: None,
                ..self.clone()
            }));
        }
        for p in shrink_program(&self.prog) {
            if p.lines.len() == self.prog.lines.len() && self.self_delete.is_none() {
                out.push(Box::new(C19Case {
                    prog: p,
                    ..self.clone()
                }));
            }
        }
        for i in 0..self.damages.len() {
            if self.damages[i].prefix != 0 {
                let mut d = self.damages.clone();
                d[i].prefix = 0;
                out.push(Box::new(C19Case {
                    damages: d,
                    ..self.clone()
                }));
            }
        }
        if self.cont_after {
            out.push(Box::new(C19Case {
                cont_after: false,
                ..self.clone()
            }));
        }
        if self.door_prefix {
            out.push(Box::new(C19Case {
                door_prefix: false,
                ..self.clone()
            }));
        }
        if self.sched_variant != 0 {
            out.push(Box::new(C19Case {
                sched_variant: 0,
                ..self.clone()
            }));
        }
        out
    }

    fn describe(&self) -> Json {
        let d = self.damaged();
        let lines = render_program(&d.prog);
        obj()
            .set("kind", "C19 clean program (optionally run and stopped), damaged by edits, then one door into it with tracing on; diagnostics checked against the listing")
            .set("clean_program", program_json(&render_program(&self.prog)))
            .set(
                "pre_run",
                match self.pre_run {
                    None => "none".to_string(),
                    Some(None) => "RUN to its end".to_string(),
                    Some(Some(k)) => format!("RUN, Ctrl-C after {} instructions", k),
                },
            )
            .set("damage_edits", Json::Arr(d.touched.iter().map(|i| Json::Str(lines[*i].clone())).collect()))
            .set("door", self.door_text(&d))
            .set("cont_typed_after_the_door", self.cont_after)
            .set("replies", self.replies.clone())
            .set("quantum_schedule_variant", self.sched_variant)
            .set("entropy", self.entropy)
            .build()
    }
}

impl Property for C19 {
    fn id(&self) -> &'static str {
        "C19"
    }
    fn generate(&self, rng: &mut Rng, tier: Tier) -> Box<dyn Case> {
        let mut cfg = GenCfg::swarm(rng);
        cfg.size = *rng.pick(&[2usize, 4, 6, 10]);
        if tier == Tier::Thorough && rng.pct(35) {
            // the thorough tier also explores larger programs
            cfg.size *= 2;
        }
        cfg.tron = false;
        cfg.errors = false;
        cfg.fns = rng.pct(60);
        cfg.gosub = rng.pct(70);
        cfg.whiles = rng.pct(60);
        cfg.stop = rng.pct(30);
        let mut prog = gen_program(rng, cfg);
        if rng.pct(25) && !prog.lines.is_empty() {
            // line numbers of every width (the line-number prefix shifts the reported columns)
            let n = prog.lines.len() as u32;
            let step = *rng.pick(&[1u32, 3, 10]);
            let start = *rng.pick(&[0u32, 7, 95, 990, 9995, 10000, 32000, 65000]);
            let start = start.min(65529 - 60 - step * n);
            for (i, l) in prog.lines.iter_mut().enumerate() {
                l.num = (start + step * i as u32) as u16;
            }
        }
        // 6%: the program damages itself: `first-1 DELETE z` ... `y GOTO z` / `z REM` behind an END
        let mut self_delete: Option<(u16, u16)> = None;
        if rng.pct(6) && !prog.lines.is_empty() {
            let first = prog.lines[0].num;
            let last = prog.lines.last().unwrap().num;
            if first > 0 && last < 65000 {
                let (e, y, z) = (last + 2, last + 4, last + 6);
                prog.lines.insert(
                    0,
                    Line {
                        num: first - 1,
                        stmts: vec![Stmt::DeleteCmd(Some(Target::Abs(z)), None)],
                    },
                );
                crate::gen::map_targets(&mut prog, &mut |t| {
                    if let Target::L(i) = t {
                        *i += 1;
                    }
                });
                prog.lines.push(Line { num: e, stmts: vec![Stmt::End] });
                prog.lines.push(Line {
                    num: y,
                    stmts: vec![Stmt::Goto(Target::Abs(z))],
                });
                prog.lines.push(Line {
                    num: z,
                    stmts: vec![Stmt::Rem("TARGET".into(), false)],
                });
                self_delete = Some((y, z));
            }
        }
        let mut r = Ref::new(&prog);
        r.auto_reply = Some(rng.fork());
        r.max_steps = 3000;
        r.direct_line(&[Stmt::Run(None)]);
        let mut replies = r.used_replies.clone();
        for _ in 0..4 {
            replies.push("1".into());
        }
        let n = prog.lines.len();
        let nd = if self_delete.is_some() { 0 } else { 1 + rng.geometric(2) as usize };
        let mut damages = vec![];
        for _ in 0..nd.min(4) {
            let fault = match rng.below(20) {
                0..=12 => Fault::Dangling(*rng.pick(&["Goto", "Gosub", "IfThen", "IfElse", "IfGoto", "OnGoto", "OnGosub", "Restore", "Run"])),
                13..=14 => Fault::StrayWhile,
                15..=16 => Fault::StrayWend,
                _ => Fault::Syntax(*rng.pick(SYNTAX)),
            };
            // two stray keywords could pair up with each other: at most one per case
            let stray = |f: &Fault| matches!(f, Fault::StrayWhile | Fault::StrayWend);
            if stray(&fault) && damages.iter().any(|d: &Damage| stray(&d.fault)) {
                continue;
            }
            damages.push(Damage {
                fault,
                at: rng.usize(n + 1),
                into_existing: rng.pct(40),
                prefix: *rng.pick(&[0u8, 0, 1, 2, 2, 3]),
            });
        }
        let door = match rng.below(16) {
            0..=1 => Door::Run,
            2 => Door::RunN,
            3..=4 => Door::Goto,
            5 => Door::Gosub,
            6 => Door::OnGoto,
            7 => Door::OnGosub,
            8 => Door::IfThen,
            9 => Door::ForGosub,
            10 => Door::Cont,
            11 => Door::Return,
            12 => Door::Next,
            13..=14 => Door::FnCall,
            _ => Door::LoadRun,
        };
        let pre_run = match rng.below(10) {
            0..=2 => None,
            3..=5 => Some(None),
            _ => Some(Some(rng.below(200))),
        };
        Box::new(C19Case {
            prog,
            pre_run,
            damages,
            door,
            door_line: rng.usize(64),
            cont_after: rng.pct(40),
            door_prefix: rng.pct(25),
            self_delete,
            replies,
            sched_variant: rng.usize(4),
            entropy: rng.next_u64(),
        })
    }
    fn budget(&self, tier: Tier) -> Budget {
        match tier {
            Tier::Quick => Budget {
                runs: 300_000,
                watchdog_s: 60,
            },
            Tier::Thorough => Budget {
                runs: 10_000_000,
                watchdog_s: 60,
            },
        }
    }
    fn rule(&self) -> &'static str {
        "one evaluation = a clean generated program typed into the real runtime, optionally RUN to its end or to a Ctrl-C at a seeded instruction (leaving frames, a CONT point, defined functions), then 1-4 planted faults typed as edits (dangling reference in GOTO / GOSUB / IF..THEN n / ELSE n / IF..GOTO n / ON..GOTO / ON..GOSUB / RESTORE n / RUN n, stray WHILE or WEND, token-level syntax damage; on a new line or in front of an existing line; 0-2 ASCII / multi-byte statements before the fault), then TRON and one of 13 doors (RUN, RUN n, GOTO n, GOSUB n, ON 1 GOTO n, ON 1 GOSUB n, IF 1 THEN n, FOR..GOSUB n..NEXT, CONT, RETURN, NEXT, PRINT FNx(..), RUN \"file\" from the SimDisk), in 40% followed by CONT, in 25% typed behind `PRINT \"X\";:`; 6% of the programs damage themselves (their first line DELETEs the target of a later GOTO, RUN first); variable probes before and after, in a third a direct line that is itself refused at compile time (unmatched WHILE / WEND, DIM without subscripts, dangling GOTO) typed first, harmless PRINT before and after, a failing direct statement under TRON and an interrupted direct loop after the door (reported without a line number, nothing traced), RUN and LIST for the diagnostics; distinct = distinct API/event log fingerprint; non-trivial = damage was placed and the listing is what was typed"
    }
    fn assumptions(&self) -> Vec<&'static str> {
        vec![
            "an empty range at the end of the line (start = end = number of characters) counts as inside the line (EXPECTED ... diagnostics)",
            "while a line does not parse, link-time diagnostics (UNDEFINED LINE, WHILE/WEND) are not produced; planted link faults are then not required to be reported",
            "the value printed by a direct PRINT FNx(..) door is not judged here (a trace token, other output or a changed variable is)",
            "RUN-like doors execute CLEAR before the jump: variables are not compared for them",
        ]
    }
    fn required_probes(&self) -> Vec<&'static str> {
        vec![
            "c19.door.run",
            "c19.door.run_n",
            "c19.door.goto",
            "c19.door.gosub",
            "c19.door.on_goto",
            "c19.door.on_gosub",
            "c19.door.if_then",
            "c19.door.for_gosub",
            "c19.door.cont",
            "c19.door.return",
            "c19.door.next",
            "c19.door.fn_call",
            "c19.door.load_run",
            "c19.fault.goto",
            "c19.fault.gosub",
            "c19.fault.if_then",
            "c19.fault.if_else",
            "c19.fault.if_goto",
            "c19.fault.on_goto",
            "c19.fault.on_gosub",
            "c19.fault.restore",
            "c19.fault.run_n",
            "c19.fault.stray_while",
            "c19.fault.stray_wend",
            "c19.fault.syntax",
            "c19.multibyte_text_before_fault",
            "c19.pre_run_left_frames",
            "c19.pre_run_left_cont_point",
            "c19.pre_run_defined_functions",
            "c19.door_reported_diagnostics",
            "c19.diagnostics_checked",
            "c19.cont_after_door",
            "c19.self_deleting_program",
            "c19.door_with_cursor_mid_line",
        ]
    }
}
