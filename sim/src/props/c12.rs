//! C12 - RUN, CLEAR and NEW reset state completely.
//!
//! Session prefixes (programs run to completion, to an error, to STOP, to an
//! interrupt at a seeded instruction; direct statements that leave variables,
//! arrays, DEFtype settings, user functions, FOR/GOSUB frames, a DATA position,
//! a pending INPUT behind) followed by RUN of another program, CLEAR or NEW.
//! Oracle: a fresh twin runtime.

use crate::ast::*;
use crate::framework::*;
use crate::gen::{gen_program, GenCfg};
use crate::json::{obj, Json};
use crate::prng::Rng;
use crate::props::c03::fatal_violation;
use crate::props::c04::H;
use crate::refbasic::Ref;
use crate::session::*;
use crate::world::*;

pub struct C12;

#[derive(Clone, Debug)]
enum Mode {
    /// the program is replaced (NEW + lines) and RUN
    RunOther(Vec<String>),
    /// RUN of the same program again
    RunSame,
    Clear,
    New,
}

#[derive(Clone)]
struct C12Case {
    p1: Vec<String>,
    prefix: Vec<H>,
    mode: Mode,
    replies: Vec<String>,
    probes: Vec<String>,
    /// a get_listing() snapshot is alive while the final RUN / CLEAR / NEW executes
    snapshot: bool,
    sched_variant: usize,
    entropy: u64,
}

fn sched(v: usize) -> Sched {
    match v % 3 {
        0 => Sched::fixed(DEFAULT_Q),
        1 => Sched::fixed(1),
        _ => Sched::fixed(11),
    }
}

const STATE_PROBES: &[&str] = &[
    "RETURN",
    "NEXT",
    "CONT",
    "PRINT FNA(1)",
    "PRINT FNB$(\"x\")",
    "READ ZQ$:PRINT ZQ$",
    "PRINT RND(1)",
    "PRINT A;B;C;G;N%;M%;S$;\"<\";T$;\">\"",
    "DIM AR(2),IA%(2,2)",
    "PRINT POS(0)",
];

impl Case for C12Case {
    fn execute(&self) -> Verdict {
        let mut v = Verdict::default();
        let mut w = World::booted(sched(self.sched_variant), self.entropy, false);
        // in a quarter of the cases every Ctrl-C reaches the runtime twice before the next slice
        w.double_intr = self.entropy % 4 == 1;
        enter_program(&mut w, &self.p1);
        let mut reply_pos = 0usize;
        for h in &self.prefix {
            if w.fatal.is_some() {
                break;
            }
            match h {
                H::Line { text, budget, .. } => {
                    let io = LineIo {
                        replies: self.replies[reply_pos.min(self.replies.len())..].to_vec(),
                        max_instr: *budget,
                        ..Default::default()
                    };
                    let o = w.line(text, &io);
                    reply_pos += replies_used(&w.events[o.ev_start..o.ev_end]);
                    w.stats.bump("c12.prefix_direct_statement");
                }
                H::StopRun { line, intr } => {
                    let mut io = LineIo {
                        replies: self.replies[reply_pos.min(self.replies.len())..].to_vec(),
                        max_instr: 3000,
                        ..Default::default()
                    };
                    if let Some(k) = intr {
                        io.intrs.push(When::Instr(*k));
                    }
                    let o = w.line(line, &io);
                    let evs = &w.events[o.ev_start..o.ev_end];
                    reply_pos += replies_used(evs);
                    if o.intr_fired > 0 {
                        w.stats.bump("c12.prefix_run_interrupted");
                    } else if has_break(evs) {
                        w.stats.bump("c12.prefix_run_stopped");
                    } else if has_error_other_than_break(evs) {
                        w.stats.bump("c12.prefix_run_failed");
                    } else {
                        w.stats.bump("c12.prefix_run_completed");
                    }
                    if o.input_abandoned > 0 {
                        w.stats.bump("c12.prefix_input_left_pending");
                    }
                    let p = w.rt.verif_probe();
                    if p.stack_len > 0 {
                        w.stats.bump("c12.prefix_left_stack_values");
                    }
                    if p.vars_len > 0 {
                        w.stats.bump("c12.prefix_left_variables");
                    }
                    if p.functions_len > 0 {
                        w.stats.bump("c12.prefix_left_functions");
                    }
                    if p.data_pos > 0 {
                        w.stats.bump("c12.prefix_left_data_position");
                    }
                }
                H::Load { .. } | H::HostLoad { .. } | H::Snap | H::Restore => {}
            }
        }
        let mut fail: Option<Violation> = None;
        let mut twin_instr = 0;
        if w.fatal.is_none() {
            // tracing persists across RUN by the manual: switch it off inside the prefix
            w.line("TROFF", &LineIo::budget(100));
            let mut f = World::booted(sched(self.sched_variant + 1), self.entropy, false);
            if self.snapshot {
                w.snap_take();
                w.stats.bump("c12.snapshot_held_across_reset");
            }
            let (kind, final_lines): (&str, Vec<String>) = match &self.mode {
                Mode::RunOther(p2) => {
                    w.line("NEW", &LineIo::budget(100));
                    enter_program(&mut w, p2);
                    enter_program(&mut f, p2);
                    ("RUN-other", vec!["RUN".to_string()])
                }
                Mode::RunSame => {
                    // the prefix may have edited the program: the twin gets what LIST shows now
                    let cur: Vec<String> = w.listing_text().lines().map(|s| s.to_string()).collect();
                    enter_program(&mut f, &cur);
                    ("RUN-same", vec!["RUN".to_string()])
                }
                Mode::Clear => {
                    let cur: Vec<String> = w.listing_text().lines().map(|s| s.to_string()).collect();
                    enter_program(&mut f, &cur);
                    let mut l = vec!["CLEAR".to_string()];
                    l.extend(self.probes.iter().cloned());
                    ("CLEAR", l)
                }
                Mode::New => {
                    let mut l = vec!["NEW".to_string()];
                    l.extend(self.probes.iter().cloned());
                    l.push("LIST".to_string());
                    ("NEW", l)
                }
            };
            if w.listing_text() != f.listing_text() && !matches!(self.mode, Mode::New) {
                v.discarded = Some("listing is not a fixed point of typing it".into());
            } else {
                for (i, line) in final_lines.iter().enumerate() {
                    let io = LineIo {
                        replies: self.replies[reply_pos.min(self.replies.len())..].to_vec(),
                        max_instr: 20_000,
                        ..Default::default()
                    };
                    if i == 0 {
                        basic::verif::set_entropy(self.entropy ^ 0x1234);
                    }
                    let o1 = w.line(line, &io);
                    let t1 = tokens(&w.events[o1.ev_start..o1.ev_end]);
                    if i == 0 {
                        basic::verif::set_entropy(self.entropy ^ 0x1234);
                    }
                    let o2 = f.line(line, &io);
                    let t2 = tokens(&f.events[o2.ev_start..o2.ev_end]);
                    if w.fatal.is_some() || f.fatal.is_some() {
                        break;
                    }
                    if o1.budget_hit && o2.budget_hit {
                        v.discarded = Some("probe exceeded the instruction budget on both runtimes".into());
                        break;
                    }
                    w.stats.bump("c12.lines_compared");
                    if t1 != t2 || o1.budget_hit != o2.budget_hit {
                        let what = line.split(|c: char| !c.is_ascii_alphabetic()).next().unwrap_or("");
                        fail = Some(Violation {
                            key: format!("C12:{}:{}:differs-from-fresh", kind, what),
                            detail: format!(
                                "{:?} after the session prefix vs on a fresh runtime: {} (fresh is 'expected')",
                                line,
                                first_diff(&t2, &t1)
                            ),
                        });
                        break;
                    }
                }
                if fail.is_none() && matches!(self.mode, Mode::New) && w.fatal.is_none() && !w.listing_text().is_empty() {
                    fail = Some(Violation {
                        key: "C12:NEW:listing-not-empty".into(),
                        detail: format!("after NEW the listing is {:?}", w.listing_text()),
                    });
                }
            }
            if self.snapshot {
                w.snap_check(0);
            }
            twin_instr = f.total_instr;
            v.stats.merge(&f.stats);
            if let Some(ft) = &f.fatal {
                fail = Some(fatal_violation("C12", ft));
            }
        }
        if let Some(ft) = &w.fatal {
            fail = Some(fatal_violation("C12", ft));
        }
        v.violation = fail;
        v.stats.merge(&w.stats);
        v.instr = w.total_instr + twin_instr;
        v.sim_us = w.sim_us;
        v.executions = 2;
        v.fingerprint = w.log_hash;
        v.nontrivial = w.total_instr > 20;
        v
    }

    fn shrink(&self) -> Vec<Box<dyn Case>> {
        let mut out: Vec<Box<dyn Case>> = vec![];
        let n = self.prefix.len();
        for i in 0..n {
            let mut p = self.prefix.clone();
            p.remove(i);
            out.push(Box::new(C12Case {
                prefix: p,
                ..self.clone()
            }));
        }
        let m = self.p1.len();
        let mut chunk = m / 2;
        while chunk >= 1 {
            let mut start = 0;
            while start < m {
                let end = (start + chunk).min(m);
                let mut b = self.p1.clone();
                b.drain(start..end);
                out.push(Box::new(C12Case {
                    p1: b,
                    ..self.clone()
                }));
                start = end;
            }
            if chunk == 1 {
                break;
            }
            chunk /= 2;
        }
        if let Mode::RunOther(p2) = &self.mode {
            for i in 0..p2.len() {
                let mut q = p2.clone();
                q.remove(i);
                out.push(Box::new(C12Case {
                    mode: Mode::RunOther(q),
                    ..self.clone()
                }));
            }
        }
        for i in 0..self.probes.len() {
            let mut q = self.probes.clone();
            q.remove(i);
            out.push(Box::new(C12Case {
                probes: q,
                ..self.clone()
            }));
        }
        for (i, h) in self.prefix.iter().enumerate() {
            if let H::StopRun { line, intr: Some(k) } = h {
                for nk in [0u64, k / 2, k.saturating_sub(1)] {
                    if nk < *k {
                        let mut hh = self.prefix.clone();
                        hh[i] = H::StopRun {
                            line: line.clone(),
                            intr: Some(nk),
                        };
                        out.push(Box::new(C12Case {
                            prefix: hh,
                            ..self.clone()
                        }));
                    }
                }
            }
        }
        if self.snapshot {
            out.push(Box::new(C12Case {
                snapshot: false,
                ..self.clone()
            }));
        }
        if self.sched_variant != 0 {
            out.push(Box::new(C12Case {
                sched_variant: 0,
                ..self.clone()
            }));
        }
        out
    }

    fn describe(&self) -> Json {
        let hist: Vec<Json> = self
            .prefix
            .iter()
            .map(|h| match h {
                H::Line { text, .. } => Json::Str(format!("type {:?}", text)),
                H::StopRun { line, intr: Some(k) } => Json::Str(format!("type {:?}, Ctrl-C after {} instructions", line, k)),
                H::StopRun { line, intr: None } => Json::Str(format!("type {:?} and let it end by itself", line)),
                H::Load { .. } | H::HostLoad { .. } | H::Snap | H::Restore => Json::Null,
            })
            .collect();
        let mode = match &self.mode {
            Mode::RunOther(p2) => obj().set("then", "NEW, type this program, RUN").set("program", program_json(p2)).build(),
            Mode::RunSame => Json::Str("then RUN".into()),
            Mode::Clear => obj().set("then", "CLEAR and these probe lines").set("probes", self.probes.clone()).build(),
            Mode::New => obj().set("then", "NEW, these probe lines, LIST").set("probes", self.probes.clone()).build(),
        };
        obj()
            .set("kind", "C12 session prefix, then RUN / CLEAR / NEW compared with a fresh runtime")
            .set("first_program", program_json(&self.p1))
            .set("prefix", Json::Arr(hist))
            .set("final", mode)
            .set("snapshot_held_across_the_reset", self.snapshot)
            .set("replies", self.replies.clone())
            .set("quantum_schedule_variant", self.sched_variant)
            .set("entropy", self.entropy)
            .build()
    }
}

/// A program that restarts itself: `RUN` / `RUN n` executed as a statement from inside GOSUB and FOR.
/// What follows the restart must equal the program's run on a fresh runtime, and the abandoned
/// frames must be gone (a stray RETURN / NEXT typed afterwards answers as on the fresh runtime).
#[derive(Clone)]
struct C12RestartCase {
    variant: u32,
    probes: Vec<String>,
    sched_variant: usize,
    entropy: u64,
}

impl C12RestartCase {
    fn program(&self) -> Vec<String> {
        let run = if self.variant & 8 != 0 { "RUN 10" } else { "RUN" };
        let v: Vec<String> = match self.variant % 4 {
            0 => vec![
                "10 DIM Q(3):Q(1)=Q(1)+5:DEF FNA(X)=X+1:D$=D$+\"SET\"".to_string(),
                "20 GOSUB 100".to_string(),
                "30 PRINT \"END\";Q(1);D$:END".to_string(),
                "100 FOR I=1 TO 2:FOR J=1 TO 2".to_string(),
                "110 INPUT A".to_string(),
                format!("120 IF A=1 THEN {}", run),
                "130 NEXT:NEXT:RETURN".to_string(),
            ],
            1 => vec![
                "10 C=C+1:READ X:PRINT X;C".to_string(),
                "20 FOR I%=1 TO 3".to_string(),
                format!("30 INPUT A:IF A=1 THEN {}", run),
                "40 NEXT I%".to_string(),
                "50 PRINT \"END\";C:DATA 7,8".to_string(),
            ],
            2 => vec![
                "10 DEFINT Z:Z=Z+1.5:PRINT Z".to_string(),
                "20 GOSUB 40".to_string(),
                "30 PRINT \"END\":END".to_string(),
                "40 GOSUB 50:RETURN".to_string(),
                format!("50 INPUT A:IF A=1 THEN {} ELSE RETURN", run),
            ],
            _ => vec![
                "10 W%=W%+1:PRINT W%".to_string(),
                "20 WHILE W%<3".to_string(),
                format!("30 INPUT A:IF A=1 THEN {}", run),
                "40 W%=W%+1:WEND".to_string(),
                "50 PRINT \"END\";W%".to_string(),
            ],
        };
        v
    }
}

impl Case for C12RestartCase {
    fn execute(&self) -> Verdict {
        let mut v = Verdict::default();
        let prog = self.program();
        let mut w = World::booted(sched(self.sched_variant), self.entropy, false);
        let mut f = World::booted(sched(self.sched_variant + 1), self.entropy, false);
        enter_program(&mut w, &prog);
        enter_program(&mut f, &prog);
        let zeros: Vec<String> = vec!["0".to_string(); 8];
        let mut with_restart = vec!["0".to_string(); (self.variant as usize >> 4) % 3];
        let skip = with_restart.len();
        with_restart.push("1".into());
        with_restart.extend(zeros.iter().cloned());
        basic::verif::set_entropy(self.entropy ^ 0x77);
        let o1 = w.line(
            "RUN",
            &LineIo {
                replies: with_restart,
                max_instr: 20_000,
                ..Default::default()
            },
        );
        basic::verif::set_entropy(self.entropy ^ 0x77);
        let o2 = f.line(
            "RUN",
            &LineIo {
                replies: zeros,
                max_instr: 20_000,
                ..Default::default()
            },
        );
        // everything after the reply that triggered the restart
        let e1 = &w.events[o1.ev_start..o1.ev_end];
        let mut seen = 0usize;
        let mut cut = 0usize;
        for (i, e) in e1.iter().enumerate() {
            if let Ev::Reply(_) = e {
                seen += 1;
                if seen == skip + 1 {
                    cut = i + 1;
                    break;
                }
            }
        }
        let t1 = tokens(&e1[cut..]);
        let t2 = tokens(&f.events[o2.ev_start..o2.ev_end]);
        let mut fail: Option<Violation> = None;
        w.stats.bump("c12.self_restart");
        if w.fatal.is_none() && f.fatal.is_none() {
            if seen < skip + 1 {
                v.discarded = Some("the restarting reply was never asked for".into());
            } else if t1 != t2 {
                fail = Some(Violation {
                    key: "C12:self-restart:run-differs-from-fresh".into(),
                    detail: format!("after the program restarted itself with RUN: {} (fresh runtime + RUN is 'expected'; program {:?})", first_diff(&t2, &t1), prog),
                });
            } else {
                for p in &self.probes {
                    let o1 = w.line(p, &LineIo::budget(5000));
                    let o2 = f.line(p, &LineIo::budget(5000));
                    let a = tokens(&w.events[o1.ev_start..o1.ev_end]);
                    let b = tokens(&f.events[o2.ev_start..o2.ev_end]);
                    w.stats.bump("c12.lines_compared");
                    if a != b && w.fatal.is_none() && f.fatal.is_none() {
                        fail = Some(Violation {
                            key: format!("C12:self-restart:{}:differs-from-fresh", p.split(|c: char| !c.is_ascii_alphabetic()).next().unwrap_or("")),
                            detail: format!("{:?} after a run in which the program restarted itself from inside GOSUB/FOR: {} (fresh is 'expected'; program {:?})", p, first_diff(&b, &a), prog),
                        });
                        break;
                    }
                }
            }
        }
        if let Some(ft) = w.fatal.as_ref().or(f.fatal.as_ref()) {
            fail = Some(fatal_violation("C12", ft));
        }
        v.violation = fail;
        v.stats.merge(&w.stats);
        v.instr = w.total_instr + f.total_instr;
        v.sim_us = w.sim_us;
        v.executions = 2;
        v.fingerprint = w.log_hash;
        v.nontrivial = true;
        v
    }
    fn shrink(&self) -> Vec<Box<dyn Case>> {
        let mut out: Vec<Box<dyn Case>> = vec![];
        for i in 0..self.probes.len() {
            if self.probes.len() > 1 {
                let mut q = self.probes.clone();
                q.remove(i);
                out.push(Box::new(C12RestartCase {
                    probes: q,
                    ..self.clone()
                }));
            }
        }
        if self.sched_variant != 0 {
            out.push(Box::new(C12RestartCase {
                sched_variant: 0,
                ..self.clone()
            }));
        }
        out
    }
    fn describe(&self) -> Json {
        obj()
            .set("kind", "C12 program restarting itself with RUN from inside GOSUB / FOR / WHILE (reply 1), compared from the restart on with RUN on a fresh runtime, then stray RETURN / NEXT / CONT and variable probes")
            .set("program", program_json(&self.program()))
            .set("replies_before_the_restart", ((self.variant as usize >> 4) % 3) as i64)
            .set("probes", self.probes.clone())
            .set("quantum_schedule_variant", self.sched_variant)
            .build()
    }
}

fn residue_statement(rng: &mut Rng) -> String {
    rng.pick(&[
        "A=5:B=6.5:N%=7:S$=\"LEFT\":T$=\"OVER\"",
        "DIM AR(3,3,3),IA%(1)",
        "AR(1)=9:IA%(2)=8:SA$(3)=\"Q\"",
        "DEFINT A-C",
        "DEFSTR G",
        "DEFDBL A-Z",
        "DEFSTR S-T:S=\"X\"",
        "PRINT (",
        "GOTO 64999",
        "DATA 1,2",
        "A=",
        "READ A",
        "READ S$,T$",
        "FOR I%=1 TO 5",
        "FOR X=1 TO 2:FOR Y=1 TO 2",
        "GOSUB 65000",
        "INPUT A,B",
        "PRINT RND(1)",
        "TRON",
        "PRINT \"MID\";",
        "X%=40000",
        "A=1/0",
        "RESTORE",
        "M%=M%+1:C=C+1",
        "SWAP A,B",
        "ERASE AR",
    ])
    .to_string()
}

/// A program that executes NEW itself, from inside a subroutine called in a FOR loop, with
/// variables, an array, a user function and consumed DATA behind it: what is typed afterwards
/// answers as on a runtime that was just started.
#[derive(Clone)]
struct C12SelfNewCase {
    variant: u32,
    probes: Vec<String>,
    sched_variant: usize,
    entropy: u64,
}

impl C12SelfNewCase {
    fn program(&self) -> Vec<String> {
        let stmt = match self.variant % 3 {
            0 => "NEW",
            1 => "PRINT \"IN\";:NEW",
            _ => "IF I=2 THEN NEW",
        };
        vec![
            "10 A=5:S$=\"X\":DIM Q(3):Q(1)=7:DEF FNA(X)=X+1:DEFINT W:W=2.5".to_string(),
            "20 READ D:DATA 1,2,3".to_string(),
            "30 FOR I=1 TO 3:GOSUB 100:NEXT".to_string(),
            "40 PRINT \"NOT HERE\"".to_string(),
            format!("100 {}", stmt),
            "110 RETURN".to_string(),
        ]
    }
}

impl Case for C12SelfNewCase {
    fn execute(&self) -> Verdict {
        let mut v = Verdict::default();
        let prog = self.program();
        let mut w = World::booted(sched(self.sched_variant), self.entropy, false);
        w.double_intr = self.entropy % 4 == 1;
        let mut f = World::booted(sched(self.sched_variant + 1), self.entropy, false);
        enter_program(&mut w, &prog);
        let o = w.line("RUN", &LineIo::budget(5000));
        let ran = tokens(&w.events[o.ev_start..o.ev_end]);
        let mut fail: Option<Violation> = None;
        w.stats.bump("c12.self_new");
        if w.fatal.is_none() && ran.iter().any(|t| matches!(t, Tok::Out(s) if s.contains("NOT HERE"))) {
            fail = Some(Violation {
                key: "C12:self-new:program-went-on".into(),
                detail: format!("the program went on after its own NEW: {:?}", ran),
            });
        }
        if fail.is_none() && w.fatal.is_none() && !w.listing_text().is_empty() {
            fail = Some(Violation {
                key: "C12:self-new:listing-not-empty".into(),
                detail: format!("after the program's own NEW the listing is {:?}", w.listing_text()),
            });
        }
        for p in &self.probes {
            if fail.is_some() || w.fatal.is_some() || f.fatal.is_some() {
                break;
            }
            let o1 = w.line(p, &LineIo::budget(5000));
            let o2 = f.line(p, &LineIo::budget(5000));
            let a = tokens(&w.events[o1.ev_start..o1.ev_end]);
            let b = tokens(&f.events[o2.ev_start..o2.ev_end]);
            w.stats.bump("c12.lines_compared");
            if a != b && w.fatal.is_none() && f.fatal.is_none() {
                fail = Some(Violation {
                    key: format!("C12:self-new:{}:differs-from-fresh", p.split(|c: char| !c.is_ascii_alphabetic()).next().unwrap_or("")),
                    detail: format!("{:?} after the program executed NEW inside GOSUB/FOR: {} (a runtime just started is 'expected')", p, first_diff(&b, &a)),
                });
            }
        }
        if let Some(ft) = w.fatal.as_ref().or(f.fatal.as_ref()) {
            fail = Some(fatal_violation("C12", ft));
        }
        v.violation = fail;
        v.stats.merge(&w.stats);
        v.stats.merge(&f.stats);
        v.instr = w.total_instr + f.total_instr;
        v.sim_us = w.sim_us;
        v.executions = 2;
        v.fingerprint = w.log_hash ^ f.log_hash.rotate_left(11);
        v.nontrivial = true;
        v
    }
    fn shrink(&self) -> Vec<Box<dyn Case>> {
        let mut out: Vec<Box<dyn Case>> = vec![];
        for i in 0..self.probes.len() {
            if self.probes.len() > 1 {
                let mut p = self.probes.clone();
                p.remove(i);
                out.push(Box::new(C12SelfNewCase {
                    probes: p,
                    ..self.clone()
                }));
            }
        }
        out
    }
    fn describe(&self) -> Json {
        obj()
            .set("kind", "C12 program executing NEW itself inside GOSUB/FOR, then lines compared with a runtime just started")
            .set("program", program_json(&self.program()))
            .set("probes", self.probes.clone())
            .set("quantum_schedule_variant", self.sched_variant)
            .build()
    }
}

impl Property for C12 {
    fn id(&self) -> &'static str {
        "C12"
    }
    fn generate(&self, rng: &mut Rng, tier: Tier) -> Box<dyn Case> {
        if rng.pct(2) {
            let mut probes: Vec<String> = vec![];
            for p in ["CONT", "RETURN", "NEXT", "NEXT I", "PRINT A;S$;Q(1);W;D", "PRINT FNA(1)", "READ X:PRINT X", "LIST", "10 PRINT 7", "RUN"] {
                if rng.pct(60) {
                    probes.push(p.to_string());
                }
            }
            if probes.is_empty() {
                probes.push("CONT".into());
            }
            return Box::new(C12SelfNewCase {
                variant: rng.below(64) as u32,
                probes,
                sched_variant: rng.usize(3),
                entropy: rng.next_u64(),
            });
        }
        if rng.pct(5) {
            let mut probes: Vec<String> = vec![];
            for p in ["RETURN", "NEXT", "NEXT I", "NEXT I%", "CONT", "PRINT FNA(1)", "PRINT A;I;J;C;W%;Z;Q(1);\"<\";D$;\">\"", "WEND", "READ X:PRINT X"] {
                if rng.pct(50) {
                    probes.push(p.to_string());
                }
            }
            if probes.is_empty() {
                probes.push("RETURN".into());
            }
            return Box::new(C12RestartCase {
                variant: rng.below(1 << 10) as u32,
                probes,
                sched_variant: rng.usize(3),
                entropy: rng.next_u64(),
            });
        }
        let mut cfg = GenCfg::swarm(rng);
        cfg.size = *rng.pick(&[2usize, 4, 6, 10]);
        if tier == Tier::Thorough && rng.pct(35) {
            // the thorough tier also explores larger programs
            cfg.size *= 2;
        }
        cfg.fns = rng.pct(60);
        cfg.data = rng.pct(60);
        cfg.arrays = rng.pct(60);
        cfg.deftype = rng.pct(25);
        cfg.rnd = rng.pct(25);
        cfg.stop = rng.pct(40);
        let prog1 = gen_program(rng, cfg.clone());
        let p1 = render_program(&prog1);
        let mut r = Ref::new(&prog1);
        r.auto_reply = Some(rng.fork());
        r.max_steps = 3000;
        r.direct_line(&[Stmt::Run(None)]);
        let mut replies = r.used_replies.clone();
        let mut cfg2 = GenCfg::swarm(rng);
        cfg2.size = *rng.pick(&[2usize, 4, 6]);
        cfg2.tron = false;
        cfg2.rnd = rng.pct(30);
        // the second program may rely on defaults: it does not DIM or DEFtype unless it says so itself
        let prog2 = gen_program(rng, cfg2);
        let mut r2 = Ref::new(&prog2);
        r2.auto_reply = Some(rng.fork());
        r2.max_steps = 3000;
        r2.direct_line(&[Stmt::Run(None)]);
        let n = 1 + rng.below(5) as usize;
        let mut prefix = vec![];
        for _ in 0..n {
            if rng.pct(50) {
                prefix.push(H::StopRun {
                    line: if rng.pct(85) { "RUN".into() } else { "CONT".into() },
                    intr: if rng.pct(60) { Some(rng.below(250)) } else { None },
                });
            } else if rng.pct(15) {
                // a typed program line right after whatever came before (a refused direct statement,
                // a failed run): nothing of that may stick to the edited program
                prefix.push(H::Line {
                    text: crate::props::c04::edit_line(rng, &prog1, &cfg),
                    must_not_edit: false,
                    budget: 500,
                });
            } else {
                prefix.push(H::Line {
                    text: residue_statement(rng),
                    must_not_edit: true,
                    budget: 2000,
                });
            }
        }
        let mode = match rng.below(10) {
            0..=3 => Mode::RunOther(render_program(&prog2)),
            4..=5 => Mode::RunSame,
            6..=7 => Mode::Clear,
            _ => Mode::New,
        };
        match &mode {
            Mode::RunOther(_) => {
                // replies consumed by the prefix come first; then those of the second program
                for _ in 0..4 {
                    replies.push("7".into());
                }
                replies.extend(r2.used_replies.iter().cloned());
            }
            _ => {
                let again = replies.clone();
                for _ in 0..2 {
                    replies.extend(again.iter().cloned());
                }
            }
        }
        for _ in 0..4 {
            replies.push(rng.pick(&["1", "2,3", "X", "4,5,6"]).to_string());
        }
        let mut probes: Vec<String> = probe_lines(&prog1);
        for p in STATE_PROBES {
            if rng.pct(60) {
                probes.push(p.to_string());
            }
        }
        Box::new(C12Case {
            p1,
            prefix,
            mode,
            replies,
            probes,
            snapshot: rng.pct(25),
            sched_variant: rng.usize(3),
            entropy: rng.next_u64(),
        })
    }
    fn budget(&self, tier: Tier) -> Budget {
        match tier {
            Tier::Quick => Budget {
                runs: 300_000,
                watchdog_s: 60,
            },
            Tier::Thorough => Budget {
                runs: 10_000_000,
                watchdog_s: 60,
            },
        }
    }
    fn rule(&self) -> &'static str {
        "one evaluation = a generated program plus a session prefix of 1-5 steps (RUN/CONT to completion, planted error, STOP or Ctrl-C at a seeded instruction; direct statements leaving variables, arrays, DEFtype, READ position, abandoned FOR/GOSUB frames, a pending INPUT, RND draws behind), then one of: NEW + another generated program + RUN; RUN again; CLEAR + probe lines; NEW + probe lines + LIST (25% with a get_listing() snapshot held across the reset) - each line compared with a fresh twin runtime (entropy aligned at the compared RUN/CLEAR/NEW); (5%: a program that restarts itself with RUN / RUN n as a statement from inside GOSUB, FOR or WHILE when the operator answers 1; everything after the restart, and stray RETURN / NEXT / CONT / WEND / READ and variable probes afterwards, compared with RUN on a fresh runtime); 2% are programs that execute NEW themselves inside GOSUB/FOR (variables, array, function, DEFtype, consumed DATA behind it), after which CONT / RETURN / NEXT / PRINT / READ / LIST / a typed line + RUN answer as on a runtime just started; distinct = distinct API/event log fingerprint; non-trivial = more than 20 VM instructions executed in the prefix"
    }
    fn assumptions(&self) -> Vec<&'static str> {
        vec![
            "tracing (TRON) is switched off at the end of the prefix: the manual lets it persist across RUN",
            "replies are handed to both runtimes from the same list position",
            "a case whose listing is not a fixed point of typing it is discarded (C05 territory)",
        ]
    }
    fn required_probes(&self) -> Vec<&'static str> {
        vec![
            "c12.prefix_run_interrupted",
            "c12.prefix_run_failed",
            "c12.prefix_run_completed",
            "c12.prefix_left_stack_values",
            "c12.prefix_left_variables",
            "c12.prefix_left_functions",
            "c12.prefix_left_data_position",
            "c12.lines_compared",
            "c12.snapshot_held_across_reset",
            "c12.self_restart",
        ]
    }
}
