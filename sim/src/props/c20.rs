//! C20 - branches resolve by line number, independent of program layout.
//!
//! (a) the same AST rendered under two layouts (renumbered, REM / empty lines
//! inserted, multi-statement lines split) must behave identically up to the
//! line numbers reported; (b) a direct statement list behaves the same whatever
//! program is resident and whatever direct lines came before, and the same as a
//! one-line program. Oracle: twin runtimes.

use crate::ast::*;
use crate::framework::*;
use crate::gen::{gen_program, map_targets, Gen, GenCfg};
use crate::json::{obj, Json};
use crate::prng::Rng;
use crate::props::c03::fatal_violation;
use crate::refbasic::Ref;
use crate::session::*;
use crate::world::*;

pub struct C20;

#[derive(Clone, Debug)]
enum Xf {
    Renumber { start: u16, step: u16, jitter: u64 },
    /// `land`: branches that aimed at the following line now aim at the remark (and fall through)
    InsertRem { at: usize, tick: bool, land: bool },
    InsertEmpty { at: usize },
    Split { line: usize, at: usize },
    AppendUnreachable,
}

#[derive(Clone)]
struct LayoutCase {
    prog: Program,
    xfs: Vec<Xf>,
    replies: Vec<String>,
    sched_variant: usize,
    entropy: u64,
}

/// Apply a transformation; `origin[i]` = index of the original line that line i came from (or None).
fn apply(p: &mut Program, origin: &mut Vec<Option<usize>>, xf: &Xf) {
    match xf {
        Xf::Renumber { start, step, jitter } => {
            let mut r = Rng::new(*jitter);
            let mut n = *start as u32;
            for l in p.lines.iter_mut() {
                l.num = n.min(65529) as u16;
                n += *step as u32 + if *jitter != 0 { r.below(5) as u32 } else { 0 };
            }
            // keep strictly increasing even when clamped
            for i in 1..p.lines.len() {
                if p.lines[i].num <= p.lines[i - 1].num {
                    p.lines[i].num = p.lines[i - 1].num + 1;
                }
            }
        }
        Xf::InsertRem { at, tick, land } => insert_line(p, origin, *at, vec![Stmt::Rem("layout".into(), *tick)], *land),
        Xf::InsertEmpty { at } => insert_line(p, origin, *at, vec![Stmt::Raw(":".into())], false),
        Xf::Split { line, at } => {
            if *line < p.lines.len() && *at > 0 && *at < p.lines[*line].stmts.len() {
                let tail: Vec<Stmt> = p.lines[*line].stmts.split_off(*at);
                let o = origin[*line];
                insert_line(p, origin, *line + 1, tail, false);
                origin[*line + 1] = o;
            }
        }
        Xf::AppendUnreachable => {
            let n = p.lines.len();
            p.lines.push(Line {
                num: 0,
                stmts: vec![Stmt::End],
            });
            origin.push(None);
            p.lines.push(Line {
                num: 0,
                stmts: vec![Stmt::Print {
                    q: false,
                    items: vec![PItem::E(Expr::Str("UNREACHABLE".into()))],
                }],
            });
            origin.push(None);
            let _ = n;
        }
    }
}

fn insert_line(p: &mut Program, origin: &mut Vec<Option<usize>>, at: usize, stmts: Vec<Stmt>, land: bool) {
    let at = at.min(p.lines.len());
    p.lines.insert(at, Line { num: 0, stmts });
    origin.insert(at, None);
    // a jump to line `at` must still reach the statement that used to be there: targets >= at shift
    map_targets(p, &mut |t| {
        if let Target::L(i) = t {
            if *i > at || (*i == at && !land) {
                *i += 1;
            }
        }
    });
}

fn number_simply(p: &mut Program) {
    let mut n = 10u32;
    for l in p.lines.iter_mut() {
        l.num = n as u16;
        n += 10;
    }
}

fn map_errors(toks: &[Tok], p: &Program, origin: &[Option<usize>]) -> Vec<Tok> {
    toks.iter()
        .map(|t| match t {
            Tok::Err(e) => {
                if let Some(pos) = e.find(" IN ") {
                    let num: String = e[pos + 4..].chars().take_while(|c| c.is_ascii_digit()).collect();
                    if let Ok(n) = num.parse::<u16>() {
                        let idx = p.lines.iter().position(|l| l.num == n);
                        let o = idx.and_then(|i| origin.get(i).copied().flatten());
                        return Tok::Err(format!("{} IN #{:?}", &e[..pos], o));
                    }
                }
                Tok::Err(e.clone())
            }
            other => other.clone(),
        })
        .collect()
}

fn sched(v: usize) -> Sched {
    match v % 3 {
        0 => Sched::fixed(DEFAULT_Q),
        1 => Sched::fixed(1),
        _ => Sched::fixed(13),
    }
}

impl LayoutCase {
    fn variants(&self) -> (Program, Vec<Option<usize>>, Program, Vec<Option<usize>>) {
        let a = self.prog.clone();
        let oa: Vec<Option<usize>> = (0..a.lines.len()).map(Some).collect();
        let mut b = self.prog.clone();
        let mut ob = oa.clone();
        // structural transformations first, numbering last (inserted lines have no number yet)
        for x in &self.xfs {
            if !matches!(x, Xf::Renumber { .. }) {
                apply(&mut b, &mut ob, x);
            }
        }
        number_simply(&mut b);
        if let Some(x) = self.xfs.iter().rev().find(|x| matches!(x, Xf::Renumber { .. })) {
            apply(&mut b, &mut ob, x);
        }
        (a, oa, b, ob)
    }
}

impl Case for LayoutCase {
    fn execute(&self) -> Verdict {
        let mut v = Verdict::default();
        let (a, oa, b, ob) = self.variants();
        let run = |p: &Program, o: &[Option<usize>], sv: usize, v: &mut Verdict| -> Result<(Vec<Tok>, Vec<Tok>, bool), Fatal> {
            let mut w = World::booted(sched(sv), self.entropy, false);
            enter_program(&mut w, &render_program(p));
            basic::verif::set_entropy(self.entropy ^ 77);
            // a single RUN (no CONT: lines appended behind an END must stay unreachable)
            let c = run_to_completion(&mut w, "RUN", &self.replies, &[], &Plan::None, None, 20_000, 0);
            let probes = run_probes(&mut w, &probe_lines(&self.prog));
            v.stats.merge(&w.stats);
            v.instr += w.total_instr;
            v.sim_us += w.sim_us;
            v.executions += 1;
            v.fingerprint ^= w.log_hash;
            if let Some(f) = w.fatal {
                return Err(f);
            }
            Ok((map_errors(&c.toks, p, o), probes, c.budget_hit || c.abandoned_input))
        };
        let ra = run(&a, &oa, self.sched_variant, &mut v);
        let rb = run(&b, &ob, self.sched_variant + 1, &mut v);
        match (ra, rb) {
            (Err(f), _) | (_, Err(f)) => v.violation = Some(fatal_violation("C20", &f)),
            (Ok((ta, pa, ia)), Ok((tb, pb, ib))) => {
                if ia || ib {
                    if ia != ib {
                        v.violation = Some(Violation {
                            key: "C20:layout:termination-differs".into(),
                            detail: format!("one layout finished, the other did not (base incomplete: {}, transformed incomplete: {})", ia, ib),
                        });
                    } else {
                        v.discarded = Some("program did not finish within the budget".into());
                    }
                } else if ta != tb {
                    v.violation = Some(Violation {
                        key: format!("C20:layout:{}:transcript", self.xf_kinds()),
                        detail: format!("{} (base layout is 'expected')", first_diff(&ta, &tb)),
                    });
                } else if pa != pb {
                    v.violation = Some(Violation {
                        key: format!("C20:layout:{}:variables", self.xf_kinds()),
                        detail: first_diff(&pa, &pb),
                    });
                } else {
                    v.stats.bump("c20.layout_pairs_compared");
                    for x in &self.xfs {
                        v.stats.bump(match x {
                            Xf::Renumber { .. } => "c20.xf.renumber",
                            Xf::InsertRem { .. } => "c20.xf.insert_rem",
                            Xf::InsertEmpty { .. } => "c20.xf.insert_empty",
                            Xf::Split { .. } => "c20.xf.split",
                            Xf::AppendUnreachable => "c20.xf.unreachable",
                        });
                    }
                }
            }
        }
        v.nontrivial = v.instr > 20 && !self.xfs.is_empty();
        v
    }

    fn shrink(&self) -> Vec<Box<dyn Case>> {
        let mut out: Vec<Box<dyn Case>> = vec![];
        for i in 0..self.xfs.len() {
            let mut x = self.xfs.clone();
            x.remove(i);
            out.push(Box::new(LayoutCase {
                xfs: x,
                ..self.clone()
            }));
        }
        // program reductions keep line indices, so the transformations still apply
        for p in shrink_program(&self.prog) {
            if p.lines.len() == self.prog.lines.len() {
                out.push(Box::new(LayoutCase {
                    prog: p,
                    ..self.clone()
                }));
            }
        }
        out
    }

    fn describe(&self) -> Json {
        let (a, _, b, _) = self.variants();
        obj()
            .set("kind", "C20 one AST under two layouts, RUN (+CONT) on twin runtimes")
            .set("layout_a", program_json(&render_program(&a)))
            .set("layout_b", program_json(&render_program(&b)))
            .set(
                "transformations",
                Json::Arr(self.xfs.iter().map(|x| Json::Str(format!("{:?}", x))).collect()),
            )
            .set("replies", self.replies.clone())
            .set("entropy", self.entropy)
            .build()
    }
}

impl LayoutCase {
    fn xf_kinds(&self) -> String {
        let mut k: Vec<&str> = self
            .xfs
            .iter()
            .map(|x| match x {
                Xf::Renumber { .. } => "renumber",
                Xf::InsertRem { .. } => "rem",
                Xf::InsertEmpty { .. } => "empty",
                Xf::Split { .. } => "split",
                Xf::AppendUnreachable => "unreachable",
            })
            .collect();
        k.sort();
        k.dedup();
        k.join("+")
    }
}

// ---------------------------------------------------------------------------

#[derive(Clone)]
struct DirectCase {
    list: Vec<Stmt>,
    resident: Vec<String>,
    before: Vec<String>,
    replies: Vec<String>,
    as_program: bool,
    /// Ctrl-C after k instructions of the direct list (resident-program variant only)
    intr: Option<u64>,
    /// the list ends with a reference to a line nobody has: the answer is known
    dangling: bool,
    sched_variant: usize,
    entropy: u64,
}

/// The texts of the break reports among the events.
fn break_reports(evs: &[Ev]) -> Vec<String> {
    let mut out = vec![];
    for e in evs {
        if let Ev::Errors(es) = e {
            for x in es.iter() {
                if x.text.starts_with("?BREAK") {
                    out.push(x.text.clone());
                }
            }
        }
    }
    out
}

impl Case for DirectCase {
    fn execute(&self) -> Verdict {
        let mut v = Verdict::default();
        let text = render_stmts(&Program::default(), &self.list);
        // reference: fresh runtime, empty store, the list typed in direct mode
        let mut w0 = World::booted(sched(self.sched_variant), self.entropy, false);
        basic::verif::set_entropy(self.entropy ^ 5);
        let mut io = LineIo {
            replies: self.replies.clone(),
            max_instr: 20_000,
            ..Default::default()
        };
        if let (Some(k), false) = (self.intr, self.as_program) {
            io.intrs.push(When::Instr(k));
        }
        let o0 = w0.line(&text, &io);
        let t0 = tokens(&w0.events[o0.ev_start..o0.ev_end]);
        let b0 = break_reports(&w0.events[o0.ev_start..o0.ev_end]);
        let mut b1 = b0.clone();
        // variant
        let mut w1 = World::booted(sched(self.sched_variant + 1), self.entropy, false);
        let t1 = if self.as_program {
            w1.line(&format!("10 {}", text), &LineIo::budget(100));
            basic::verif::set_entropy(self.entropy ^ 5);
            let o1 = w1.line("RUN", &io);
            let t: Vec<Tok> = tokens(&w1.events[o1.ev_start..o1.ev_end])
                .into_iter()
                .map(|t| match t {
                    Tok::Err(e) => Tok::Err(e.replace(" IN 10", "")),
                    o => o,
                })
                .collect();
            v.stats.bump("c20.direct_vs_one_line_program");
            t
        } else {
            enter_program(&mut w1, &self.resident);
            for l in &self.before {
                w1.line(l, &LineIo::budget(2000));
            }
            // the store must be empty for the comparison: CLEAR is a direct statement too
            w1.line("CLEAR", &LineIo::budget(100));
            basic::verif::set_entropy(self.entropy ^ 5);
            let o1 = w1.line(&text, &io);
            v.stats.bump("c20.direct_with_resident_program");
            if !self.before.is_empty() {
                v.stats.bump("c20.direct_after_other_direct_lines");
            }
            b1 = break_reports(&w1.events[o1.ev_start..o1.ev_end]);
            if !b0.is_empty() {
                v.stats.bump("c20.direct_list_interrupted");
            }
            tokens(&w1.events[o1.ev_start..o1.ev_end])
        };
        v.stats.merge(&w0.stats);
        v.stats.merge(&w1.stats);
        v.instr = w0.total_instr + w1.total_instr;
        v.executions = 2;
        v.fingerprint = w0.log_hash ^ w1.log_hash.rotate_left(7);
        v.nontrivial = w0.total_instr > 3;
        let refused = |t: &[Tok]| matches!(t, [Tok::Err(e)] if e.starts_with("?UNDEFINED LINE"));
        if let Some(f) = w0.fatal.as_ref().or(w1.fatal.as_ref()) {
            v.violation = Some(fatal_violation("C20", f));
        } else if self.dangling && self.intr.is_none() && (!refused(&t0) || !refused(&t1)) {
            // both twins run the same interpreter: here the answer is known without a twin
            v.violation = Some(Violation {
                key: "C20:direct-dangling-reference".to_string(),
                detail: format!("{:?} refers to a line that does not exist: expected one ?UNDEFINED LINE report and nothing else, got {:?} (empty store) / {:?} (resident program)", text, t0, t1),
            });
        } else if o0.budget_hit {
            v.discarded = Some("direct list exceeded the budget".into());
        } else if b0 != b1 {
            v.violation = Some(Violation {
                key: "C20:direct-vs-resident:break-report".to_string(),
                detail: format!(
                    "{:?} interrupted after {:?} instructions: with an empty store the report is {:?}, with the resident program {:?}",
                    text, self.intr, b0, b1
                ),
            });
        } else if t0 != t1 {
            v.violation = Some(Violation {
                key: if self.as_program {
                    "C20:direct-vs-program:transcript".to_string()
                } else {
                    "C20:direct-vs-resident:transcript".to_string()
                },
                detail: format!("{:?}: {} (fresh direct mode is 'expected')", text, first_diff(&t0, &t1)),
            });
        }
        v
    }
    fn shrink(&self) -> Vec<Box<dyn Case>> {
        let mut out: Vec<Box<dyn Case>> = vec![];
        for i in 0..self.list.len() {
            if self.list.len() > 1 {
                let mut l = self.list.clone();
                l.remove(i);
                out.push(Box::new(DirectCase {
                    list: l,
                    ..self.clone()
                }));
            }
        }
        for i in 0..self.before.len() {
            let mut l = self.before.clone();
            l.remove(i);
            out.push(Box::new(DirectCase {
                before: l,
                ..self.clone()
            }));
        }
        let n = self.resident.len();
        let mut chunk = n / 2;
        while chunk >= 1 {
            let mut start = 0;
            while start < n {
                let end = (start + chunk).min(n);
                let mut l = self.resident.clone();
                l.drain(start..end);
                out.push(Box::new(DirectCase {
                    resident: l,
                    ..self.clone()
                }));
                start = end;
            }
            if chunk == 1 {
                break;
            }
            chunk /= 2;
        }
        out
    }
    fn describe(&self) -> Json {
        obj()
            .set("kind", "C20 direct statement list: fresh runtime vs resident program / earlier direct lines / one-line program")
            .set("list", render_stmts(&Program::default(), &self.list))
            .set("as_one_line_program", self.as_program)
            .set("resident_program", program_json(&self.resident))
            .set("direct_lines_before", self.before.clone())
            .set("replies", self.replies.clone())
            .set("ends_with_dangling_reference", self.dangling)
            .set("interrupt_after_instructions", match self.intr { Some(k) => k.to_string(), None => "none".to_string() })
            .build()
    }
}

fn direct_list(rng: &mut Rng, cfg: &GenCfg) -> Vec<Stmt> {
    let mut sub = rng.fork();
    let mut g = Gen::new(&mut sub, cfg.clone());
    let mut out: Vec<Stmt> = vec![];
    match rng.below(6) {
        5 => {
            // lists that compile to no code at all
            return match rng.below(5) {
                0 => vec![Stmt::Rem("nothing".into(), false)],
                1 => vec![Stmt::Rem("tick".into(), true)],
                2 => vec![Stmt::Raw(":".into())],
                3 => vec![Stmt::Raw(":".into()), Stmt::Rem("x".into(), false)],
                _ => vec![Stmt::Rem(String::new(), false)],
            };
        }
        0 => {
            // FOR ... NEXT on one line
            out.push(Stmt::For {
                var: Var::new("I%"),
                from: Expr::Int(1),
                to: Expr::Int(rng.range(1, 4) as i16),
                step: None,
            });
            g.simple_line_public(&mut out);
            out.push(Stmt::Next(if rng.pct(50) { vec![Var::new("I%")] } else { vec![] }));
        }
        1 if rng.pct(40) => {
            // the list begins with WHILE itself (WEND jumps back to the very first opcode of the line)
            out.push(Stmt::While(Expr::bin(BinOp::Lt, Expr::var("W1%"), Expr::Int(rng.range(0, 3) as i16))));
            g.simple_line_public(&mut out);
            out.push(Stmt::Let {
                kw: false,
                target: LVal::scalar("W1%"),
                expr: Expr::bin(BinOp::Add, Expr::var("W1%"), Expr::Int(1)),
            });
            out.push(Stmt::Wend);
        }
        1 => {
            out.push(Stmt::Let {
                kw: false,
                target: LVal::scalar("W1%"),
                expr: Expr::Int(rng.range(0, 3) as i16),
            });
            out.push(Stmt::While(Expr::bin(BinOp::Gt, Expr::var("W1%"), Expr::Int(0))));
            g.simple_line_public(&mut out);
            out.push(Stmt::Let {
                kw: false,
                target: LVal::scalar("W1%"),
                expr: Expr::bin(BinOp::Sub, Expr::var("W1%"), Expr::Int(1)),
            });
            out.push(Stmt::Wend);
        }
        2 => {
            g.simple_line_public(&mut out);
            let mut then = vec![];
            g.simple_line_public(&mut then);
            let mut els = vec![];
            g.simple_line_public(&mut els);
            // in a third the list ends with an END inside the branch (taken or not)
            let end_in_branch = rng.pct(33);
            if end_in_branch {
                if rng.pct(50) {
                    then.clear();
                }
                then.push(Stmt::End);
            }
            out.push(Stmt::If {
                cond: if end_in_branch && rng.pct(50) { Expr::bin(BinOp::Eq, Expr::var("W9%"), Expr::Int(1)) } else { g.cond(1) },
                goto_form: false,
                then: Branch::Stmts(then),
                els: if !end_in_branch && rng.pct(50) { Some(Branch::Stmts(els)) } else { None },
            });
        }
        _ => {
            g.simple_line_public(&mut out);
            g.simple_line_public(&mut out);
        }
    }
    // no line references, no READ (the DATA of the resident program would matter), no tracing
    out.retain(|s| !matches!(s, Stmt::Read(_) | Stmt::Restore(_) | Stmt::Tron | Stmt::Troff));
    out.retain(|s| {
        // planted errors may carry a line reference (ON -1 GOTO n): not legal material here
        let mut has_target = false;
        let mut s2 = s.clone();
        crate::gen::map_targets_stmt(&mut s2, &mut |_| has_target = true);
        !has_target
    });
    if out.is_empty() {
        out.push(Stmt::Print {
            q: false,
            items: vec![PItem::E(Expr::Int(1))],
        });
    }
    out
}

impl Property for C20 {
    fn id(&self) -> &'static str {
        "C20"
    }
    fn generate(&self, rng: &mut Rng, tier: Tier) -> Box<dyn Case> {
        let mut cfg = GenCfg::swarm(rng);
        // this check uses 65528 / 65529 as the lines that do not exist, and renumbers its layouts anyway
        cfg.top_line = false;
        cfg.tron = false;
        cfg.rnd = rng.pct(20);
        if rng.pct(60) {
            cfg.size = *rng.pick(&[3usize, 5, 8, 12]);
            if tier == Tier::Thorough && rng.pct(35) {
                // the thorough tier also explores larger programs
                cfg.size *= 2;
            }
            cfg.rems = false;
            cfg.stop = false;
            cfg.end_mid = false;
            let mut prog = gen_program(rng, cfg);
            if rng.pct(25) && !prog.lines.is_empty() {
                // the first line of the program (line 0 under some layouts) as a branch target:
                // a second pass through the whole program
                let last = prog.lines.last().map(|l| l.num).unwrap_or(0);
                if last < 65000 {
                    prog.lines.push(Line {
                        num: last + 5,
                        stmts: vec![Stmt::If {
                            cond: Expr::bin(BinOp::Eq, Expr::var("C0%"), Expr::Int(0)),
                            goto_form: false,
                            then: Branch::Stmts(vec![
                                Stmt::Let {
                                    kw: false,
                                    target: LVal::scalar("C0%"),
                                    expr: Expr::Int(1),
                                },
                                if rng.pct(50) { Stmt::Goto(Target::L(0)) } else { Stmt::Gosub(Target::L(0)) },
                            ]),
                            els: None,
                        }],
                    });
                }
            }
            let mut r = Ref::new(&prog);
            r.auto_reply = Some(rng.fork());
            r.max_steps = 4000;
            let mut ended = r.direct_line(&[Stmt::Run(None)]);
            let mut guard = 0;
            while guard < 6 && r.grey.is_none() && matches!(ended, crate::refbasic::Ended::Break) {
                ended = r.direct_line(&[Stmt::Cont]);
                guard += 1;
            }
            let mut replies = r.used_replies.clone();
            for _ in 0..3 {
                replies.push("1".into());
            }
            let n = 1 + rng.below(5) as usize;
            let mut xfs = vec![];
            let mut len = prog.lines.len();
            for _ in 0..n {
                let x = match rng.below(10) {
                    0..=2 => Xf::Renumber {
                        start: *rng.pick(&[0u16, 1, 5, 100, 1000, 30000]),
                        step: *rng.pick(&[1u16, 2, 7, 10, 100]),
                        jitter: if rng.pct(50) { rng.next_u64() | 1 } else { 0 },
                    },
                    3..=4 => {
                        len += 1;
                        Xf::InsertRem {
                            at: rng.usize(len),
                            tick: rng.pct(30),
                            land: rng.pct(40),
                        }
                    }
                    5 => {
                        len += 1;
                        Xf::InsertEmpty { at: rng.usize(len) }
                    }
                    6..=8 => {
                        len += 1;
                        Xf::Split {
                            line: rng.usize(len.max(1)),
                            at: 1 + rng.usize(3),
                        }
                    }
                    _ => {
                        len += 2;
                        Xf::AppendUnreachable
                    }
                };
                xfs.push(x);
            }
            Box::new(LayoutCase {
                prog,
                xfs,
                replies,
                sched_variant: rng.usize(3),
                entropy: rng.next_u64(),
            })
        } else {
            cfg.input = rng.pct(30);
            cfg.stop = false;
            // a fresh runtime has not reseeded RND yet, RUN and CLEAR do: legitimately different
            cfg.rnd = false;
            let mut list = direct_list(rng, &cfg);
            let as_program = rng.pct(40);
            // (not behind a remark, which would swallow it)
            let dangling = !as_program && rng.pct(8) && !list.iter().any(|s| matches!(s, Stmt::Rem(..)));
            if dangling {
                // a reference to a line that no resident program has (the highest legal numbers): the
                // answer is ?UNDEFINED LINE whatever is resident, and nothing of the list runs
                let t = Target::Abs(*rng.pick(&[65529u16, 65528]));
                list.push(match rng.below(6) {
                    0 => Stmt::Goto(t),
                    1 => Stmt::Gosub(t),
                    2 => Stmt::Restore(Some(t)),
                    3 => Stmt::OnGoto(Expr::Int(1), vec![t]),
                    4 => Stmt::Run(Some(t)),
                    _ => Stmt::If {
                        cond: Expr::Int(1),
                        goto_form: false,
                        then: Branch::Line(t),
                        els: None,
                    },
                });
            }
            let mut c2 = GenCfg::swarm(rng);
            c2.top_line = false;
            c2.size = *rng.pick(&[0usize, 2, 6, 20, 40]);
            let mut resident = render_program(&gen_program(rng, c2));
            match rng.below(10) {
                0..=1 => {
                    resident.push("65000 GOTO 64999".into());
                    resident.push("65001 WEND".into());
                }
                2 => {
                    // a line that does not parse *and* link-time faults (dangling branch, open WHILE)
                    resident.push("65000 GOSUB 64999".into());
                    resident.push("65001 WHILE 1".into());
                    resident.push("65002 PRINT (".into());
                }
                3 => {
                    resident.push("65000 PRINT )".into());
                    resident.push("65001 ON 1 GOTO 64999,64998".into());
                }
                _ => {}
            }
            let nb = rng.below(4) as usize;
            let before: Vec<String> = (0..nb)
                .map(|_| {
                    rng.pick(&[
                        "FOR I%=1 TO 3:NEXT",
                        "FOR Q=1 TO 2",
                        "WHILE 0:WEND",
                        "IF 1 THEN PRINT 2 ELSE PRINT 3",
                        "X%=40000",
                        "PRINT (",
                        "GOSUB 65000",
                        "A=1:S$=\"X\":N%=3",
                        "DIM AR(3)",
                        "PRINT \"MID\";",
                        // refused at compile time with a branch / an open loop in them
                        "GOTO 100:DIM A",
                        "GOSUB 64999:DIM A",
                        "WHILE 1:DIM A",
                        "RESTORE 64999:PRINT (",
                    ])
                    .to_string()
                })
                .collect();
            // replies for INPUT statements inside the list
            let mut r = Ref::new(&Program::default());
            r.auto_reply = Some(rng.fork());
            r.direct_line(&list);
            let mut replies = r.used_replies.clone();
            replies.push("1".into());
            Box::new(DirectCase {
                list,
                resident,
                before,
                replies,
                as_program,
                sched_variant: rng.usize(3),
                entropy: rng.next_u64(),
                dangling,
                intr: if !as_program && rng.pct(30) { Some(if rng.pct(25) { 0 } else { rng.below(40) }) } else { None },
            })
        }
    }
    fn budget(&self, tier: Tier) -> Budget {
        match tier {
            Tier::Quick => Budget {
                runs: 300_000,
                watchdog_s: 60,
            },
            Tier::Thorough => Budget {
                runs: 10_000_000,
                watchdog_s: 60,
            },
        }
    }
    fn rule(&self) -> &'static str {
        "one evaluation = either (60%) a generated program rendered under two layouts (1-5 transformations: monotone renumbering with seeded gaps, inserted REM / ':'-only lines (a remark may take over the branches that aimed at the line it precedes), multi-statement lines split into consecutive lines, unreachable lines appended) and run to completion with CONT on twin runtimes, transcripts and final variables compared with reported line numbers mapped back to the original statement; or (40%) a direct statement list (FOR..NEXT, WHILE..WEND, IF..THEN..ELSE, simple statements, no line references) typed into a fresh runtime and compared with the same list typed with a small / large / compile-error-carrying resident program (dangling branch, stray WEND, open WHILE, lines that do not parse, and combinations) after 0-3 other direct lines (failed, with loops, with syntax errors, refused at compile time with a branch or an open loop in them); a third of the IF lists end with an END inside the branch; 8% of the resident-program comparisons append a reference to line 65529 / 65528, which no resident has, or as the one-line program `10 <list>` + RUN; distinct = distinct pair of log fingerprints"
    }
    fn assumptions(&self) -> Vec<&'static str> {
        vec![
            "TRON is excluded (inserted or split lines legitimately add trace tokens)",
            "DATA lines are not moved (their order is part of the program's meaning)",
            "direct lists contain no READ / RESTORE and no line references: those legitimately depend on the resident program",
            "direct vs one-line program: the store is empty in both and ' IN 10' is stripped from error reports",
        ]
    }
    fn required_probes(&self) -> Vec<&'static str> {
        vec![
            "c20.layout_pairs_compared",
            "c20.xf.renumber",
            "c20.xf.insert_rem",
            "c20.xf.insert_empty",
            "c20.xf.split",
            "c20.xf.unreachable",
            "c20.direct_vs_one_line_program",
            "c20.direct_with_resident_program",
            "c20.direct_after_other_direct_lines",
        ]
    }
}
