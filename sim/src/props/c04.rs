//! C04 - what runs is always the program that LIST shows.
//!
//! Seeded edit histories (insert, replace, delete, absent-delete, DELETE, RENUM,
//! NEW, load, harmless direct statements) around runs stopped inside loops and
//! subroutines, ending in RUN / RUN n / CONT / RETURN / NEXT.
//! Oracle: a fresh twin runtime into which the current listing text is typed.

use crate::ast::*;
use crate::framework::*;
use crate::gen::{gen_program, Gen, GenCfg};
use crate::json::{obj, Json};
use crate::prng::Rng;
use crate::props::c03::fatal_violation;
use crate::refbasic::Ref;
use crate::session::*;
use crate::world::*;

pub struct C04;

#[derive(Clone, Debug)]
pub enum H {
    /// a typed line; `must_not_edit`: a direct statement that is not an editing command
    Line { text: String, must_not_edit: bool, budget: u64 },
    /// RUN (or CONT) that is stopped by an interrupt after k instructions, a STOP, an END or an error
    StopRun { line: String, intr: Option<u64> },
    /// a file is put on the SimDisk and loaded
    Load { name: String, lines: Vec<String> },
    /// RUN, and after k instructions the host loads file G by itself (set_listing while the old
    /// program is running or waiting for input)
    HostLoad { k: u64 },
    /// the host takes a `get_listing()` snapshot and keeps it
    Snap,
    /// the host hands the most recent snapshot back (`set_listing(snapshot, false)`, an "undo")
    Restore,
}

#[derive(Clone)]
pub struct C04Case {
    pub base: Vec<String>,
    pub replies: Vec<String>,
    pub history: Vec<H>,
    pub probe: String,
    pub sched_variant: usize,
    pub entropy: u64,
}

fn sched(v: usize) -> Sched {
    match v % 4 {
        0 => Sched::fixed(DEFAULT_Q),
        1 => Sched::fixed(1),
        2 => Sched::fixed(7),
        _ => Sched::list((0..300).map(|i| if i % 3 == 0 { 1 } else { 50 }).collect(), DEFAULT_Q),
    }
}

const PROBE_BUDGET: u64 = 20_000;

impl Case for C04Case {
    fn execute(&self) -> Verdict {
        let mut v = Verdict::default();
        let mut w = World::booted(sched(self.sched_variant), self.entropy, false);
        // in a quarter of the cases every Ctrl-C reaches the runtime twice before the next slice
        w.double_intr = self.entropy % 4 == 1;
        // a file a program line may LOAD or RUN by itself
        w.disk.insert("G".into(), file_g());
        enter_program(&mut w, &self.base);
        let mut reply_pos = 0usize;
        let mut stopped_once = false;
        let mut edited_since_stop = false;
        let mut fail: Option<Violation> = None;
        for (i, h) in self.history.iter().enumerate() {
            if w.fatal.is_some() || fail.is_some() {
                break;
            }
            let before = w.listing_text();
            match h {
                H::Line {
                    text,
                    must_not_edit,
                    budget,
                } => {
                    let io = LineIo {
                        replies: self.replies[reply_pos.min(self.replies.len())..].to_vec(),
                        max_instr: *budget,
                        ..Default::default()
                    };
                    let o = w.line(text, &io);
                    reply_pos += replies_used(&w.events[o.ev_start..o.ev_end]);
                    let after = w.listing_text();
                    if *must_not_edit {
                        w.stats.bump("c04.harmless_direct_statement");
                        // it may have entered the program (GOTO n) or left frames of its own:
                        // a later CONT / RETURN / NEXT without an edit in between is legitimate
                        stopped_once = true;
                        edited_since_stop = false;
                        let self_editing = before.contains(" DELETE") || before.contains(" NEW") || before.contains(":NEW") || before.contains(":DELETE") || before.contains("LOAD \"G\"") || before.contains("RUN \"G\"");
                        if after != before && self_editing {
                            // GOTO n / GOSUB n entered a program that carries a DELETE or NEW statement
                            w.stats.bump("c04.program_edited_itself");
                            let ran_file = w.events[o.ev_start..o.ev_end].iter().any(|e| matches!(e, Ev::RunFile(_)));
                            edited_since_stop = !ran_file;
                        } else if after != before && w.fatal.is_none() {
                            fail = Some(Violation {
                                key: "C04:direct-statement-edited-program".into(),
                                detail: format!("history op {} ({:?}) changed the listing from {:?} to {:?}", i, text, before, after),
                            });
                        }
                    }
                    if after != before && !*must_not_edit {
                        w.stats.bump("fault.edit");
                        if stopped_once {
                            w.stats.bump("fault.edit_under_execution_state");
                        }
                        edited_since_stop = true;
                    } else if !*must_not_edit {
                        w.stats.bump("c04.editing_command_without_effect");
                    }
                }
                H::StopRun { line, intr } => {
                    let mut io = LineIo {
                        replies: self.replies[reply_pos.min(self.replies.len())..].to_vec(),
                        max_instr: 3000,
                        ..Default::default()
                    };
                    if let Some(k) = intr {
                        io.intrs.push(When::Instr(*k));
                    }
                    let o = w.line(line, &io);
                    reply_pos += replies_used(&w.events[o.ev_start..o.ev_end]);
                    let p = w.rt.verif_probe();
                    if p.stack_returns > 0 {
                        w.stats.bump("c04.stopped_with_gosub_frames");
                    }
                    if p.stack_nexts > 0 {
                        w.stats.bump("c04.stopped_with_for_frames");
                    }
                    if p.cont != "Stopped" {
                        w.stats.bump("c04.stopped_continuable");
                    }
                    stopped_once = true;
                    edited_since_stop = false;
                    // a program may edit itself (a DELETE or NEW statement ends the run): that is
                    // an edit after which nothing may be resumed either
                    let after = w.listing_text();
                    if after != before {
                        w.stats.bump("fault.edit");
                        w.stats.bump("c04.program_edited_itself");
                        // RUN "file" replaces the program and runs the new one: the stop that
                        // followed belongs to the new program and may be continued
                        let ran_file = w.events[o.ev_start..o.ev_end].iter().any(|e| matches!(e, Ev::RunFile(_)));
                        edited_since_stop = !ran_file;
                    }
                }
                H::HostLoad { k } => {
                    let io = LineIo {
                        replies: self.replies[reply_pos.min(self.replies.len())..].to_vec(),
                        max_instr: 3000,
                        host_load: Some((*k, "G".into(), false)),
                        ..Default::default()
                    };
                    let o = w.line("RUN", &io);
                    let evs = &w.events[o.ev_start..o.ev_end];
                    reply_pos += replies_used(evs);
                    // from the load on nothing of the old program may run
                    if let Some(pos) = evs.iter().position(|e| matches!(e, Ev::Load(n) if n.starts_with("(host)"))) {
                        w.stats.bump("fault.edit");
                        for e in &evs[pos + 1..] {
                            let ran = match e {
                                Ev::Print(s) if is_ready_print(s) => None,
                                Ev::Print(s) => Some(format!("printed {:?}", s)),
                                Ev::Input(p, _) => Some(format!("asked for input {:?}", p)),
                                Ev::Errors(es) => Some(format!("reported {:?}", es.iter().map(|x| x.text.clone()).collect::<Vec<_>>())),
                                _ => None,
                            };
                            if let Some(what) = ran {
                                if fail.is_none() && w.fatal.is_none() {
                                    fail = Some(Violation {
                                        key: "C04:host-load:old-program-kept-running".into(),
                                        detail: format!("after set_listing() arrived {} instructions into the run, the interpreter still {}", k, what),
                                    });
                                }
                                break;
                            }
                        }
                        edited_since_stop = true;
                    } else {
                        // the run was over before the load was due: an ordinary run
                        edited_since_stop = false;
                    }
                    stopped_once = true;
                }
                H::Snap => {
                    w.snap_take();
                }
                H::Restore => {
                    let last = w.snaps.len();
                    if last > 0 && w.snap_restore(last - 1) {
                        w.stats.bump("fault.edit");
                        w.stats.bump("c04.snapshot_restored");
                        edited_since_stop = true;
                    }
                }
                H::Load { name, lines } => {
                    w.disk.insert(name.clone(), lines.clone());
                    w.line(&format!("LOAD \"{}\"", name), &LineIo::budget(200));
                    w.stats.bump("fault.edit");
                    edited_since_stop = true;
                }
            }
        }
        let mut twin_instr = 0;
        if w.fatal.is_none() && fail.is_none() {
            let listing = w.listing_text();
            let lines: Vec<String> = listing.lines().map(|s| s.to_string()).collect();
            let mut f = World::booted(sched(self.sched_variant + 1), self.entropy, false);
            f.disk.insert("G".into(), file_g());
            enter_program(&mut f, &lines);
            let twin_listing = f.listing_text();
            if twin_listing != listing {
                // listing not a fixed point: a C05 matter, never a C04 alarm
                v.discarded = Some("listing of the edited program is not a fixed point of typing it".into());
            } else {
                let judged = self.probe.starts_with("RUN") || edited_since_stop || !stopped_once;
                if !judged {
                    w.stats.bump("c04.legitimate_resumption_not_judged");
                    v.stats.merge(&w.stats);
                    v.instr = w.total_instr;
                    v.executions = 1;
                    v.fingerprint = w.log_hash;
                    return v;
                }
                let io = LineIo {
                    replies: self.replies[reply_pos.min(self.replies.len())..].to_vec(),
                    max_instr: PROBE_BUDGET,
                    ..Default::default()
                };
                basic::verif::set_entropy(self.entropy ^ 0x5555);
                let o1 = w.line(&self.probe, &io);
                let t1 = tokens(&w.events[o1.ev_start..o1.ev_end]);
                basic::verif::set_entropy(self.entropy ^ 0x5555);
                let o2 = f.line(&self.probe, &io);
                let t2 = tokens(&f.events[o2.ev_start..o2.ev_end]);
                twin_instr = f.total_instr;
                v.stats.merge(&f.stats);
                if let Some(ft) = &f.fatal {
                    fail = Some(fatal_violation("C04", ft));
                } else if !judged {
                    w.stats.bump("c04.legitimate_resumption_not_judged");
                } else if o1.budget_hit || o2.budget_hit {
                    if o1.budget_hit != o2.budget_hit {
                        fail = Some(Violation {
                            key: format!("C04:{}:termination-differs", probe_kind(&self.probe)),
                            detail: format!(
                                "{:?}: history-laden runtime budget_hit={} fresh twin budget_hit={}",
                                self.probe, o1.budget_hit, o2.budget_hit
                            ),
                        });
                    } else {
                        v.discarded = Some("probe exceeded the instruction budget on both runtimes".into());
                    }
                } else {
                    if self.probe.starts_with("PRINT FN") {
                        w.stats.bump("c04.fn_probe_compared");
                    }
                    w.stats.bump(if self.probe.starts_with("RUN") {
                        "c04.run_compared"
                    } else {
                        "c04.resume_probe_compared"
                    });
                    if t1 != t2 {
                        fail = Some(Violation {
                            key: format!("C04:{}:differs-from-fresh", probe_kind(&self.probe)),
                            detail: format!(
                                "{:?} after the history vs on a fresh runtime fed the listing: {} (fresh is 'expected')",
                                self.probe,
                                first_diff(&t2, &t1)
                            ),
                        });
                    }
                }
            }
        }
        if let Some(ft) = &w.fatal {
            fail = Some(fatal_violation("C04", ft));
        }
        v.violation = fail;
        v.stats.merge(&w.stats);
        v.instr = w.total_instr + twin_instr;
        v.sim_us = w.sim_us;
        v.executions = 2;
        v.fingerprint = w.log_hash;
        v.nontrivial = w.stats.get("fault.edit") > 0 && w.total_instr > 10;
        v
    }

    fn shrink(&self) -> Vec<Box<dyn Case>> {
        let mut out: Vec<Box<dyn Case>> = vec![];
        let n = self.history.len();
        let mut chunk = n / 2;
        while chunk >= 1 {
            let mut start = 0;
            while start < n {
                let end = (start + chunk).min(n);
                let mut h = self.history.clone();
                h.drain(start..end);
                out.push(Box::new(C04Case {
                    history: h,
                    ..self.clone()
                }));
                start = end;
            }
            if chunk == 1 {
                break;
            }
            chunk /= 2;
        }
        // drop base lines (chunks, then singles)
        let m = self.base.len();
        let mut chunk = m / 2;
        while chunk >= 1 {
            let mut start = 0;
            while start < m {
                let end = (start + chunk).min(m);
                let mut b = self.base.clone();
                b.drain(start..end);
                out.push(Box::new(C04Case {
                    base: b,
                    ..self.clone()
                }));
                start = end;
            }
            if chunk == 1 {
                break;
            }
            chunk /= 2;
        }
        for (i, h) in self.history.iter().enumerate() {
            if let H::StopRun { line, intr: Some(k) } = h {
                for nk in [0u64, k / 2, k.saturating_sub(1)] {
                    if nk < *k {
                        let mut hh = self.history.clone();
                        hh[i] = H::StopRun {
                            line: line.clone(),
                            intr: Some(nk),
                        };
                        out.push(Box::new(C04Case {
                            history: hh,
                            ..self.clone()
                        }));
                    }
                }
            }
        }
        if self.sched_variant != 0 {
            out.push(Box::new(C04Case {
                sched_variant: 0,
                ..self.clone()
            }));
        }
        out
    }

    fn describe(&self) -> Json {
        let hist: Vec<Json> = self
            .history
            .iter()
            .map(|h| match h {
                H::Line { text, must_not_edit, .. } => {
                    if *must_not_edit {
                        Json::Str(format!("type {:?} (must not edit the program)", text))
                    } else {
                        Json::Str(format!("type {:?}", text))
                    }
                }
                H::StopRun { line, intr: Some(k) } => Json::Str(format!("type {:?}, Ctrl-C after {} instructions", line, k)),
                H::StopRun { line, intr: None } => Json::Str(format!("type {:?} and let it stop by itself", line)),
                H::Load { name, lines } => obj().set("load_file", name.clone()).set("lines", lines.clone()).build(),
                H::Snap => Json::Str("the host takes a get_listing() snapshot and keeps it".into()),
                H::Restore => Json::Str("the host hands its latest snapshot back: set_listing(snapshot, false)".into()),
                H::HostLoad { k } => Json::Str(format!("type \"RUN\"; {} instructions later the host calls set_listing(file G) by itself", k)),
            })
            .collect();
        obj()
            .set("kind", "C04 edit history, then a probe compared with a fresh runtime fed the listing")
            .set("base_program", program_json(&self.base))
            .set("history", Json::Arr(hist))
            .set("probe", self.probe.clone())
            .set("replies", self.replies.clone())
            .set("quantum_schedule_variant", self.sched_variant)
            .set("entropy", self.entropy)
            .build()
    }
}

fn file_g() -> Vec<String> {
    ["10 PRINT \"G\";N%:N%=N%+1", "20 IF N%<2 THEN 10", "30 A=5:GOSUB 50", "40 END", "50 RETURN"].iter().map(|s| s.to_string()).collect()
}

fn probe_kind(p: &str) -> &'static str {
    if p == "RUN" {
        "RUN"
    } else if p.starts_with("RUN") {
        "RUN-n"
    } else if p.starts_with("CONT") {
        "CONT"
    } else if p.starts_with("RETURN") {
        "RETURN"
    } else if p.starts_with("PRINT FN") {
        "FN"
    } else {
        "NEXT"
    }
}

pub fn edit_line(rng: &mut Rng, prog: &Program, cfg: &GenCfg) -> String {
    let nums: Vec<u16> = prog.lines.iter().map(|l| l.num).collect();
    let pick_num = |rng: &mut Rng| -> u16 {
        if nums.is_empty() || rng.pct(40) {
            let base = if nums.is_empty() { 10 } else { *rng.pick(&nums) };
            base.saturating_add(rng.range(1, 9) as u16).min(65529)
        } else {
            *rng.pick(&nums)
        }
    };
    match rng.below(100) {
        0..=39 => {
            // insert or replace with a simple statement
            let n = pick_num(rng);
            let mut sub = rng.fork();
            let mut g = Gen::new(&mut sub, cfg.clone());
            let mut out = vec![];
            g.simple_line_public(&mut out);
            format!("{} {}", n, render_stmts(&Program::default(), &out))
        }
        40..=49 => {
            let n = pick_num(rng);
            let t = if nums.is_empty() { 10 } else { *rng.pick(&nums) };
            format!(
                "{} {} {}",
                n,
                rng.pick(&["GOTO", "GOSUB", "IF N%=0 THEN", "RESTORE"]),
                if rng.pct(85) { t } else { t.saturating_add(3) }
            )
        }
        50..=64 => {
            // bare number: present or absent
            if !nums.is_empty() && rng.pct(50) {
                rng.pick(&nums).to_string()
            } else {
                pick_num(rng).saturating_add(1).to_string()
            }
        }
        65..=79 => {
            let a = if nums.is_empty() { 10 } else { *rng.pick(&nums) };
            let b = if nums.is_empty() { 20 } else { *rng.pick(&nums) };
            match rng.below(5) {
                0 => format!("DELETE {}", a),
                1 => format!("DELETE {}-", a.max(b)),
                2 => format!("DELETE -{}", a.min(b)),
                3 => format!("DELETE {}-{}", a.min(b), a.max(b)),
                _ => format!("DELETE {}", a.saturating_add(1)),
            }
        }
        80..=94 => {
            let a = if nums.is_empty() { 10 } else { *rng.pick(&nums) };
            match rng.below(7) {
                0 => "RENUM".to_string(),
                1 => format!("RENUM {}", rng.pick(&[1u32, 5, 100, 1000, 60000, 65529])),
                2 => format!("RENUM {},{}", rng.pick(&[100u32, 1000, 5]), a),
                3 => format!("RENUM {},{},{}", rng.pick(&[100u32, 1000]), a, rng.pick(&[1u32, 10, 100, 20000])),
                4 => format!("RENUM ,{}", a),
                5 => format!("RENUM ,,{}", rng.pick(&[1u32, 3, 100])),
                _ => format!("RENUM {},{},{}", a, a, 1),
            }
        }
        95 => "NEW".to_string(),
        96 => {
            // a line that edits the program when it is executed
            let n = pick_num(rng);
            let a = if nums.is_empty() { 10 } else { *rng.pick(&nums) };
            match rng.below(6) {
                0 => format!("{} DELETE {}", n, a),
                1 => format!("{} DELETE {}-", n, a),
                2 => format!("{} IF N%=0 THEN DELETE -{}", n, a),
                3 => format!("{} LOAD \"G\"", n),
                4 => format!("{} RUN \"G\"", n),
                _ => format!("{} NEW", n),
            }
        }
        _ => {
            let n = pick_num(rng);
            format!("{} REM {}", n, rng.pick(&["x", "é", "GOTO 10"]))
        }
    }
}

pub fn harmless_direct(rng: &mut Rng, prog: &Program) -> String {
    let nums: Vec<u16> = prog.lines.iter().map(|l| l.num).collect();
    match rng.below(14) {
        0 => "PRINT 1+1".into(),
        1 => "A=2:N%=N%+1".into(),
        2 => "DIM QQ(3)".into(),
        3 => "READ A".into(),
        4 => "FOR I=1 TO 2:NEXT".into(),
        5 => "X%=40000".into(),
        6 => "PRINT A;N%;S$".into(),
        7 => "RESTORE".into(),
        8 => "S$=\"10 PRINT 1\"".into(),
        9 => "PRINT \"10 PRINT 1\"".into(),
        10 => "GOSUB 65000".into(),
        11 if !nums.is_empty() => format!("GOTO {}", rng.pick(&nums)),
        12 => "CLEAR".into(),
        _ => "PRINT 7;".into(),
    }
}

impl Property for C04 {
    fn id(&self) -> &'static str {
        "C04"
    }
    fn generate(&self, rng: &mut Rng, tier: Tier) -> Box<dyn Case> {
        let mut cfg = GenCfg::swarm(rng);
        cfg.tron = false;
        cfg.size = *rng.pick(&[2usize, 4, 6, 10]);
        if tier == Tier::Thorough && rng.pct(35) {
            // the thorough tier also explores larger programs
            cfg.size *= 2;
        }
        cfg.stop = rng.pct(50);
        cfg.gosub = rng.pct(80);
        cfg.fors = true;
        cfg.rnd = rng.pct(20);
        let prog = gen_program(rng, cfg.clone());
        let base = render_program(&prog);
        let mut r = Ref::new(&prog);
        r.auto_reply = Some(rng.fork());
        r.max_steps = 3000;
        r.direct_line(&[Stmt::Run(None)]);
        let mut replies = r.used_replies.clone();
        for _ in 0..6 {
            replies.push(rng.pick(&["1", "2,3", "X", "4,5,6", "7"]).to_string());
        }
        let n = 1 + rng.below(8) as usize;
        let mut history = vec![];
        let stop_at = if rng.pct(70) { Some(rng.usize(n)) } else { None };
        for i in 0..n {
            if Some(i) == stop_at {
                history.push(H::StopRun {
                    line: "RUN".into(),
                    intr: if rng.pct(70) { Some(rng.below(250)) } else { None },
                });
                continue;
            }
            if rng.pct(8) {
                history.push(H::HostLoad { k: if rng.pct(70) { rng.below(30) } else { rng.below(200) } });
                continue;
            }
            match rng.below(10) {
                0..=6 => history.push(H::Line {
                    text: edit_line(rng, &prog, &cfg),
                    must_not_edit: false,
                    budget: 500,
                }),
                7..=8 => history.push(H::Line {
                    text: harmless_direct(rng, &prog),
                    must_not_edit: true,
                    budget: 3000,
                }),
                _ => {
                    let mut c2 = GenCfg::swarm(rng);
                    c2.size = 3;
                    c2.tron = false;
                    let p2 = gen_program(rng, c2);
                    history.push(H::Load {
                        name: "F".into(),
                        lines: render_program(&p2),
                    });
                }
            }
        }
        if rng.pct(10) {
            // snapshots handed back: taken at a random point (before or after something compiled the
            // program), restored after later edits and runs
            let at = rng.usize(history.len() + 1);
            history.insert(at, H::Snap);
            if rng.pct(50) && !prog.lines.is_empty() {
                // a DELETE that really removes lines while the snapshot is alive
                let a = prog.lines[rng.usize(prog.lines.len())].num;
                let b = prog.lines[rng.usize(prog.lines.len())].num;
                history.push(H::Line {
                    text: match rng.below(3) {
                        0 => format!("DELETE {}", a),
                        1 => format!("DELETE {}-{}", a.min(b), a.max(b)),
                        _ => format!("DELETE -{}", a),
                    },
                    must_not_edit: false,
                    budget: 500,
                });
            }
            if rng.pct(60) {
                history.push(H::Line {
                    text: edit_line(rng, &prog, &cfg),
                    must_not_edit: false,
                    budget: 500,
                });
            }
            if rng.pct(60) {
                history.push(H::StopRun {
                    line: "RUN".into(),
                    intr: if rng.pct(50) { Some(rng.below(250)) } else { None },
                });
            }
            let at2 = at + 1 + rng.usize(history.len() - at);
            history.insert(at2, H::Restore);
        }
        if rng.pct(8) && !prog.lines.is_empty() {
            // self-editing program: insert the editing line early, run, then probe
            let first = prog.lines[0].num;
            let victim = prog.lines[rng.usize(prog.lines.len())].num;
            let at = prog.lines[rng.usize(prog.lines.len())].num;
            let stmt = match rng.below(7) {
                0 => format!("DELETE {}", victim),
                1 => format!("DELETE {}-", victim),
                2 => format!("DELETE -{}", victim),
                3..=4 => "LOAD \"G\"".to_string(),
                5 => "RUN \"G\"".to_string(),
                _ => "NEW".to_string(),
            };
            let num = if rng.pct(50) && first > 0 { first - 1 } else { at.saturating_add(1).min(65529) };
            history.push(H::Line {
                text: format!("{} {}", num, stmt),
                must_not_edit: false,
                budget: 500,
            });
            history.push(H::StopRun {
                line: "RUN".into(),
                intr: None,
            });
        }
        let nums: Vec<u16> = prog.lines.iter().map(|l| l.num).collect();
        // a user function the (earlier) run defined, called from direct mode
        let mut fn_call: Option<String> = None;
        for l in &prog.lines {
            crate::gen::walk_stmts(&l.stmts, &mut |s| {
                if let Stmt::DefFn { name, params, .. } = s {
                    let args: Vec<String> = params
                        .iter()
                        .map(|v| if v.sfx == Some('$') { "\"x\"".to_string() } else { "1".to_string() })
                        .collect();
                    fn_call = Some(format!("PRINT FN{}({})", name.text(), args.join(",")));
                }
            });
        }
        let probe = match rng.below(11) {
            10 if fn_call.is_some() => fn_call.unwrap(),
            0..=3 | 10 => "RUN".to_string(),
            4..=5 => format!(
                "RUN {}",
                if nums.is_empty() {
                    10
                } else {
                    let n = *rng.pick(&nums);
                    if rng.pct(70) {
                        n
                    } else {
                        *rng.pick(&[10u16, 100, 1000, n.saturating_add(10)])
                    }
                }
            ),
            6 => "CONT".to_string(),
            7 => "RETURN".to_string(),
            8 => "NEXT".to_string(),
            _ => format!("NEXT {}", rng.pick(&["I%", "J%", "X"])),
        };
        Box::new(C04Case {
            base,
            replies,
            history,
            probe,
            sched_variant: rng.usize(4),
            entropy: rng.next_u64(),
        })
    }
    fn budget(&self, tier: Tier) -> Budget {
        match tier {
            Tier::Quick => Budget {
                runs: 400_000,
                watchdog_s: 60,
            },
            Tier::Thorough => Budget {
                runs: 12_000_000,
                watchdog_s: 60,
            },
        }
    }
    fn rule(&self) -> &'static str {
        "one evaluation = a generated base program, a history of 1-8 operations (insert/replace line, bare number of a present/absent line, DELETE in four range forms, RENUM with valid and invalid triples, NEW, LOAD from the SimDisk, a host-initiated load (set_listing) arriving k instructions into a run, harmless direct statements, a RUN stopped by Ctrl-C at a seeded instruction / STOP / END / error / a DELETE, NEW, LOAD \"file\" or RUN \"file\" statement of the program itself) and a final probe (RUN, RUN n, CONT, RETURN, NEXT, NEXT v, a direct call of a user function the program defines) executed on the history-laden runtime and on a fresh twin fed get_listing() text, entropy aligned; distinct = distinct API/event log fingerprint; non-trivial = at least one effective edit and more than 10 VM instructions"
    }
    fn assumptions(&self) -> Vec<&'static str> {
        vec![
            "CONT / RETURN / NEXT typed when no edit happened since the last stop are legitimate resumptions and are not judged",
            "a case whose edited listing is not a fixed point of typing it (C05 territory) is discarded",
            "TRON is kept off (the manual lets tracing persist across RUN)",
        ]
    }
    fn required_probes(&self) -> Vec<&'static str> {
        vec![
            "fault.edit",
            "fault.edit_under_execution_state",
            "c04.run_compared",
            "c04.resume_probe_compared",
            "c04.stopped_with_gosub_frames",
            "c04.stopped_with_for_frames",
            "c04.harmless_direct_statement",
            "c04.fn_probe_compared",
            "c04.program_edited_itself",
            "fault.host_load_during_run",
        ]
    }
}
