//! C03 - no input can crash or wedge the interpreter; it always returns to READY.
//!
//! Seeded sessions of hostile lines, replies, interrupts, snapshots and loads.
//! Oracles (all invariants, most of them enforced inside `World`): no panic, no
//! fuel exhaustion, bounded slice, bounded return to the prompt after an
//! interrupt, snapshot isolation, canary line at the end.

use crate::ast::render_program;
use crate::framework::*;
use crate::gen::{gen_program, GenCfg};
use crate::json::{obj, Json};
use crate::prng::Rng;
use crate::session::*;
use crate::world::*;

pub struct C03;

#[derive(Clone, Debug)]
pub enum Op {
    Line {
        text: String,
        replies: Vec<String>,
        keys: Vec<String>,
        intrs: Vec<When>,
        budget: u64,
    },
    Snap,
    SnapDrop(usize),
    SnapCheck(usize),
    Tab(usize),
    File(String, Vec<String>),
}

#[derive(Clone)]
struct C03Case {
    ops: Vec<Op>,
    sched_variant: usize,
    sched_seed: u64,
    entropy: u64,
}

pub const WORDS: &[&str] = &[
    "CLEAR", "CLS", "CONT", "DATA", "DEF", "DEFDBL", "DEFINT", "DEFSNG", "DEFSTR", "DELETE", "DIM", "ELSE", "END",
    "ERASE", "FOR", "GOSUB", "GOTO", "IF", "INPUT", "LET", "LIST", "LOAD", "NEW", "NEXT", "ON", "PRINT", "READ",
    "REM", "RENUM", "RESTORE", "RETURN", "RUN", "SAVE", "STEP", "STOP", "SWAP", "THEN", "TO", "TROFF", "TRON",
    "WEND", "WHILE", "AND", "OR", "XOR", "NOT", "IMP", "EQV", "MOD", "GO", "SUB", "FN", "FNA", "FNB$",
];

pub const FUNCS: &[&str] = &[
    "ABS", "ASC", "ATN", "CDBL", "CHR$", "CINT", "COS", "CSNG", "DATE$", "EXP", "FIX", "HEX$", "INKEY$", "INSTR",
    "INT", "LEFT$", "LEN", "LOG", "MID$", "OCT$", "POS", "RIGHT$", "RND", "SGN", "SIN", "SPC", "SQR", "STR$",
    "STRING$", "TAB", "TAN", "TIME$", "VAL",
];

pub const PUNCT: &[&str] = &[
    "(", ")", ",", ":", ";", "?", "'", "^", "*", "/", "\\", "+", "-", "=", "<", ">", "<=", ">=", "<>", "=<", "=>", "&",
    "&H", "\"", " ", "  ", "\t", "!", "#", "%", "$", ".", "..", "@", "_", "[", "]", "{", "~", "|",
];

pub const LITS: &[&str] = &[
    "0", "1", "7", "10", "255", "256", "1023", "1024", "1025", "32767", "32768", "65529", "65530", "65535", "65536",
    "99999", "1E", "1e", "1EE", "1ee", "1D", "1DD", "1E+", "1E-", "1E5", "1E5E5", "1D5", "1.5", ".5", "5.", ".",
    "1..2", "1.2.3", "1e39", "1e-46", "1d309", "123456789", "1234567.8", "1!", "1#", "1%", "40000%", "&HFFFF",
    "&H8000", "&H7FFF", "&HG", "&8", "&77777", "&177777", "&H", "&", "\"\"", "\"A\"", "\"é\"", "\"日本\"",
    "\"unterminated", "-32767-1", "3.4e38", "1e308#",
];

pub const IDENTS: &[&str] = &[
    "A", "A%", "A!", "A#", "A$", "B", "I", "J%", "X1", "X11", "Z$", "AB", "BONK", "FORK", "TOTAL", "A(1)", "A(1,2)",
    "A$(0)", "A(", "N%", "S$",
];

const IDIOMS: &[&str] = &[
    "PRINT 1ee",
    "PRINT 1EE5",
    "PRINT 1dd",
    "A=1e",
    "PRINT 1E",
    "PRINT 1e+",
    "A%=-32767-1:PRINT -A%",
    "A%=-32767-1:PRINT ABS(A%)",
    "A%=-32767-1:PRINT A%\\-1",
    "A%=-32767-1:PRINT A% MOD -1",
    "PRINT -32768",
    "PRINT &H8000",
    "PRINT 2^15",
    "PRINT 32767+1",
    "PRINT CINT(32767.5)",
    "PRINT CHR$(-1)",
    "PRINT CHR$(55296)",
    "PRINT CHR$(1114112)",
    "PRINT STRING$(256,65)",
    "PRINT STRING$(255,1114112)",
    "PRINT SPC(256)",
    "PRINT TAB(256)",
    "PRINT TAB(-256)",
    "PRINT TAB(0)",
    "PRINT TAB(-0)",
    "PRINT LEFT$(\"A\",-1)",
    "PRINT MID$(\"A\",0)",
    "PRINT MID$(\"A\",1,-1)",
    "PRINT INSTR(0,\"A\",\"A\")",
    "PRINT INSTR(-1,\"A\",\"A\")",
    "PRINT INSTR(\"é日本\",\"本\")",
    "PRINT ASC(\"\")",
    "PRINT VAL(\"1e\")",
    "PRINT VAL(\"&H\")",
    "PRINT VAL(\"é1\")",
    "PRINT VAL(\"1é\")",
    "PRINT HEX$(-32768)",
    "PRINT OCT$(40000)",
    "PRINT RND(-1);RND(0);RND",
    "PRINT POS(",
    "PRINT FNA(1)",
    "DEF FNA(X)=X",
    "10 DEF FNA(X)=FNA(X)+1",
    "20 PRINT FNA(1)",
    "10 GOSUB 10",
    "10 FOR I=1 TO 2:GOTO 10",
    "10 DIM A(32767,32767,32767)",
    "20 A(32767,32767,32767)=1",
    "DIM A(-1)",
    "DIM A(40000)",
    "ERASE A",
    "ERASE",
    "NEXT",
    "RETURN",
    "WEND",
    "WHILE 1",
    "CONT",
    "RUN 65529",
    "RUN 65530",
    "RUN \"NOFILE\"",
    "LOAD \"NOFILE\"",
    "LOAD \"F1\"",
    "RUN \"F1\"",
    "SAVE \"F2\"",
    "SAVE \"\"",
    "LOAD 5",
    "LIST 65529-0",
    "LIST 65530",
    "LIST -",
    "LIST 10-20-30",
    "DELETE",
    "DELETE 0-65529",
    "DELETE 65530",
    "DELETE 5-1",
    "RENUM",
    "RENUM 65529",
    "RENUM 65530",
    "RENUM 10,,0",
    "RENUM ,,",
    "RENUM 1,1,1",
    "RENUM 100,50,65529",
    "NEW",
    "CLEAR ,1,2",
    "TRON",
    "TROFF",
    "DEFINT A-Z",
    "DEFSTR A-B",
    "DEFDBL Z-A",
    "DEFINT A-",
    "DEFINT 1",
    "INPUT A",
    "INPUT ,\"P\";A$,B%",
    "INPUT \"X\"",
    "INPUT A(I%),I%",
    "A$=INKEY$",
    "READ A",
    "DATA 1,2",
    "10 DATA 1,\"X\",-3",
    "20 READ A$,B,C$",
    "RESTORE 5",
    "ON 0 GOTO",
    "ON -1 GOTO 10",
    "ON 70000 GOTO 10",
    "ON 1 GOSUB 65529",
    "IF 1 THEN",
    "IF 1 THEN ELSE",
    "IF \"A\" THEN PRINT 1",
    "IF 1 THEN IF 1 THEN IF 1 THEN PRINT 1 ELSE PRINT 2 ELSE PRINT 3",
    "FOR I=1 TO 3 STEP 0:NEXT",
    "FOR I$=1 TO 2",
    "FOR A(1)=1 TO 2",
    "SWAP A,B$",
    "SWAP A",
    "MID$(A$,0)=\"X\"",
    "MID$(A$,1,-1)=\"X\"",
    "LET",
    "LET=",
    "=1",
    "PRINT \"A\";:LIST:PRINT POS(0)",
    "PRINT,,,,,,,,,,,,,,,,",
    "?",
    "???",
    "'",
    "REM",
    ":",
    "::::",
    "10",
    "0",
    "65529",
    "65530",
    " 10 PRINT 1",
    "10PRINT1",
    "010 PRINT 1",
    "1e1 PRINT 1",
    "10.5 PRINT 1",
    "-10 PRINT 1",
    "10 10 10",
    "GO TO 10",
    "GO SUB 10",
    "GO  TO 10",
    "GOTO10",
    "PRINT A< =B",
    "PRINT A= >B",
    "PRINT A> <B",
    "PRINT A<  >B",
    "PRINT 1 < = > 2",
    "PRINT NOT",
    "PRINT -",
    "PRINT (",
    "PRINT )",
    "PRINT 1+",
    "PRINT +-+-+-1",
];

fn soup_bytes(rng: &mut Rng) -> String {
    let len = match rng.below(6) {
        0 => rng.below(8),
        1 => rng.below(64),
        2 => rng.below(300),
        3 => 1018 + rng.below(12),
        _ => rng.below(1100),
    } as usize;
    let mut bytes = Vec::with_capacity(len);
    for _ in 0..len {
        let b = match rng.below(10) {
            0..=5 => 32 + rng.below(95) as u8,
            6 => *rng.pick(&[b'"', b':', b'(', b')', b'&', b'\'', b'1', b'E', b'e', b'D', b'.', b'-', b'+', b',']),
            7 => rng.below(32) as u8,
            _ => rng.below(256) as u8,
        };
        if b == b'\n' || b == b'\r' {
            bytes.push(b' ');
        } else {
            bytes.push(b);
        }
    }
    String::from_utf8_lossy(&bytes).to_string()
}

fn boundary_line(rng: &mut Rng) -> String {
    // lines whose byte / character length sits on the 1024 limit, multi-byte characters across it
    let target = 1020 + rng.below(10) as usize;
    let mb = *rng.pick(&["é", "日", "😀", "a"]);
    let head = *rng.pick(&["10 REM ", "PRINT \"", "10 PRINT \"", "REM ", "A$=\""]);
    let mut s = String::from(head);
    if rng.pct(50) {
        while s.len() < target {
            s.push_str(mb);
        }
    } else {
        while s.chars().count() < target {
            s.push_str(mb);
        }
    }
    s
}

fn token_soup(rng: &mut Rng) -> String {
    let n = 1 + rng.below(14) as usize;
    let mut s = String::new();
    if rng.pct(35) {
        s.push_str(&format!("{} ", rng.pick(&[0u32, 1, 5, 10, 20, 100, 65529, 65530, 70000])));
    }
    for _ in 0..n {
        let t: &str = match rng.below(10) {
            0..=2 => *rng.pick::<&str>(WORDS),
            3 => *rng.pick::<&str>(FUNCS),
            4..=5 => *rng.pick::<&str>(PUNCT),
            6..=7 => *rng.pick::<&str>(LITS),
            _ => *rng.pick::<&str>(IDENTS),
        };
        if rng.pct(50) {
            s.push_str(&t.to_ascii_lowercase());
        } else {
            s.push_str(t);
        }
        if rng.pct(60) {
            s.push(' ');
        }
    }
    s
}

fn deep_nesting(rng: &mut Rng) -> String {
    let depth = *rng.pick(&[10usize, 100, 300, 500]);
    match rng.below(5) {
        0 => format!("PRINT {}1{}", "(".repeat(depth), ")".repeat(depth)),
        1 => format!("PRINT {}1", "-".repeat(depth.min(1000))),
        2 => format!("PRINT {}1", "NOT ".repeat(depth.min(250))),
        3 => format!("PRINT {}1{}", "ABS(".repeat(depth.min(200)), ")".repeat(depth.min(200))),
        _ => format!("10 IF 1 THEN {}PRINT 1", "IF 1 THEN ".repeat(depth.min(100))),
    }
}

fn mutate_line(rng: &mut Rng, line: &str) -> String {
    // token-ish mutation: split at blanks and punctuation boundaries
    let mut parts: Vec<String> = vec![];
    let mut cur = String::new();
    for ch in line.chars() {
        if ch.is_ascii_alphanumeric() || ch == '$' || ch == '%' || ch == '.' {
            cur.push(ch);
        } else {
            if !cur.is_empty() {
                parts.push(std::mem::take(&mut cur));
            }
            parts.push(ch.to_string());
        }
    }
    if !cur.is_empty() {
        parts.push(cur);
    }
    let n = 1 + rng.below(3);
    for _ in 0..n {
        if parts.is_empty() {
            break;
        }
        let i = rng.usize(parts.len());
        match rng.below(4) {
            0 => {
                parts.remove(i);
            }
            1 => {
                let p = parts[i].clone();
                parts.insert(i, p);
            }
            2 => {
                let j = rng.usize(parts.len());
                parts.swap(i, j);
            }
            _ => {
                let t: &str = match rng.below(4) {
                    0 => *rng.pick::<&str>(WORDS),
                    1 => *rng.pick::<&str>(PUNCT),
                    2 => *rng.pick::<&str>(LITS),
                    _ => *rng.pick::<&str>(IDENTS),
                };
                parts[i] = t.to_string();
            }
        }
    }
    parts.concat()
}

fn hostile_reply(rng: &mut Rng) -> String {
    match rng.below(10) {
        0 => String::new(),
        1 => ",".repeat(rng.below(5) as usize),
        2 => "\"".to_string(),
        3 => "1,2,3,4,5,6,7,8".to_string(),
        4 => "x".repeat(1020 + rng.below(10) as usize),
        5 => "é".repeat(510 + rng.below(5) as usize),
        6 => soup_bytes(rng),
        7 => rng.pick(&["1e", "1e999", "&H", "&HFFFFF", "nan", "inf", "-", "1,,2", "\"a\",\"b", " , "]).to_string(),
        _ => rng.pick(&["1", "2,3", "A,B", "1,X"]).to_string(),
    }
}

fn rand_intrs(rng: &mut Rng) -> Vec<When> {
    let mut v = vec![];
    if rng.pct(35) {
        let n = 1 + rng.geometric(2);
        for _ in 0..n {
            v.push(match rng.below(9) {
                0 => When::AtPrompt,
                1..=3 => When::Instr(rng.below(40)),
                4 => When::Instr(rng.below(2000)),
                5 => When::Slice(rng.below(12)),
                6 => When::AtInput(rng.below(3) as usize),
                7 => When::AfterReply(rng.below(3) as usize),
                _ => When::AfterList(rng.below(4) as usize),
            });
        }
    }
    v
}

impl C03Case {
    fn sched(&self) -> Sched {
        let mut r = Rng::new(self.sched_seed);
        match self.sched_variant % 6 {
            0 => Sched::fixed(1),
            1 => Sched::fixed(5000),
            2 => Sched::list((0..600).map(|_| 1 + r.below(8) as u32).collect(), 5000),
            3 => Sched::list((0..600).map(|i| if i % 2 == 0 { 1 } else { 5000 }).collect(), 5000),
            4 => Sched::fixed(2 + r.below(30) as u32),
            _ => Sched::list((0..600).map(|_| *r.pick(&[1u32, 2, 3, 100, 5000, 100000])).collect(), 5000),
        }
    }
}

fn fatal_key(prop: &str, f: &Fatal) -> String {
    // panic keys carry the source file and the message (line numbers would shift with edits)
    if f.tag.starts_with("panic:") {
        let mut parts = f.detail.rsplitn(2, " @ ");
        let loc = parts.next().unwrap_or("");
        let msg = parts.next().unwrap_or("");
        let file = loc.rsplit('/').next().unwrap_or(loc).split(':').next().unwrap_or("");
        let msg: String = msg.chars().filter(|c| c.is_ascii_alphanumeric() || *c == ' ').take(48).collect();
        let key = format!("{}:{}:{}:{}", prop, f.tag, file, msg.trim().replace(' ', "_"));
        if f.history.is_empty() {
            key
        } else {
            format!("{}:after-{}", key, f.history)
        }
    } else {
        format!("{}:{}", prop, f.tag)
    }
}

pub fn fatal_violation(prop: &str, f: &Fatal) -> Violation {
    Violation {
        key: fatal_key(prop, f),
        detail: f.detail.clone(),
    }
}

impl Case for C03Case {
    fn execute(&self) -> Verdict {
        let mut v = Verdict::default();
        let mut w = World::booted(self.sched(), self.entropy, false);
        // in a quarter of the cases every Ctrl-C reaches the runtime twice before the next slice
        w.double_intr = self.entropy % 4 == 1;
        let mut edits_with_live_snapshot = 0u64;
        for op in &self.ops {
            if w.fatal.is_some() {
                break;
            }
            match op {
                Op::Line {
                    text,
                    replies,
                    keys,
                    intrs,
                    budget,
                } => {
                    if w.snaps_alive() > 0 {
                        edits_with_live_snapshot += 1;
                        w.stats.bump("fault.live_snapshot_during_enter");
                    }
                    if text.len() > 1024 {
                        w.stats.bump("fault.overlong_line");
                    }
                    if !text.is_ascii() {
                        w.stats.bump("fault.non_ascii_line");
                    }
                    w.stats.bump("fault.hostile_line");
                    let io = LineIo {
                        replies: replies.clone(),
                        keys: keys.clone(),
                        intrs: intrs.clone(),
                        max_instr: *budget,
                        cycle_replies: false,
            host_load: None,
            host_load_after_list: None,
            max_slices: 0,
                    };
                    let o = w.line(text, &io);
                    if o.budget_hit {
                        w.stats.bump("c03.budget_interrupt_needed");
                    }
                    if w.events[o.ev_start..o.ev_end]
                        .iter()
                        .any(|e| matches!(e, Ev::Errors(es) if es.iter().any(|x| x.text.starts_with("?INTERNAL ERROR"))))
                    {
                        w.stats.bump("c03.internal_error_reported");
                    }
                    // snapshot isolation after every mutation
                    for i in 0..w.snaps.len() {
                        w.snap_check(i);
                    }
                }
                Op::Snap => {
                    w.snap_take();
                }
                Op::SnapDrop(i) => w.snap_drop(*i),
                Op::SnapCheck(i) => {
                    w.snap_check(*i);
                }
                Op::Tab(n) => {
                    w.tab(*n);
                }
                Op::File(name, lines) => {
                    w.disk.insert(name.clone(), lines.clone());
                }
            }
        }
        let _ = edits_with_live_snapshot;
        // canary: the session is still usable
        if w.fatal.is_none() {
            let o = w.line("PRINT 7", &LineIo::budget(1000));
            let t = tokens(&w.events[o.ev_start..o.ev_end]);
            if w.fatal.is_none() && t != vec![Tok::Out(" 7 \n".into())] {
                v.violation = Some(Violation {
                    key: "C03:canary".into(),
                    detail: format!("after the session `PRINT 7` gave {:?}", t),
                });
            }
            if w.fatal.is_none() && v.violation.is_none() {
                let listing = w.listing_text();
                let o = w.line("LIST", &LineIo::budget(1000));
                let listed: Vec<String> = w.events[o.ev_start..o.ev_end]
                    .iter()
                    .filter_map(|e| if let Ev::List(s, _) = e { Some(s.clone()) } else { None })
                    .collect();
                let expect: Vec<String> = listing.lines().map(|s| s.to_string()).collect();
                if w.fatal.is_none() && listed != expect && listed.len() < 900 {
                    v.violation = Some(Violation {
                        key: "C03:canary-list".into(),
                        detail: format!("LIST printed {} lines, the stored program has {}", listed.len(), expect.len()),
                    });
                }
            }
        }
        if let Some(f) = &w.fatal {
            v.violation = Some(fatal_violation("C03", f));
        }
        v.stats.merge(&w.stats);
        v.instr = w.total_instr;
        v.sim_us = w.sim_us;
        v.executions = 1;
        v.fingerprint = w.log_hash;
        v.nontrivial = w.stats.get("fault.hostile_line") > 0;
        for s in &w.intr_sites {
            let _ = s;
            v.stats.bump("c03.distinct_interrupt_sites_in_run");
        }
        v
    }

    fn shrink(&self) -> Vec<Box<dyn Case>> {
        let mut out: Vec<Box<dyn Case>> = vec![];
        let n = self.ops.len();
        // drop chunks of ops
        let mut chunk = n / 2;
        while chunk >= 1 {
            let mut start = 0;
            while start < n {
                let end = (start + chunk).min(n);
                let mut ops = self.ops.clone();
                ops.drain(start..end);
                out.push(Box::new(C03Case { ops, ..self.clone() }));
                start = end;
            }
            if chunk == 1 {
                break;
            }
            chunk /= 2;
        }
        // simplify single ops
        for i in 0..n {
            if let Op::Line {
                text,
                replies,
                keys,
                intrs,
                budget,
            } = &self.ops[i]
            {
                if !intrs.is_empty() {
                    for k in 0..intrs.len() {
                        let mut ops = self.ops.clone();
                        let mut it = intrs.clone();
                        it.remove(k);
                        ops[i] = Op::Line {
                            text: text.clone(),
                            replies: replies.clone(),
                            keys: keys.clone(),
                            intrs: it,
                            budget: *budget,
                        };
                        out.push(Box::new(C03Case { ops, ..self.clone() }));
                    }
                }
                if !replies.is_empty() {
                    let mut ops = self.ops.clone();
                    let mut r = replies.clone();
                    r.pop();
                    ops[i] = Op::Line {
                        text: text.clone(),
                        replies: r,
                        keys: keys.clone(),
                        intrs: intrs.clone(),
                        budget: *budget,
                    };
                    out.push(Box::new(C03Case { ops, ..self.clone() }));
                }
                // shorten the text: halves, then single characters (for short lines)
                let chars: Vec<char> = text.chars().collect();
                if chars.len() > 1 {
                    let cuts: Vec<(usize, usize)> = if chars.len() > 24 {
                        let h = chars.len() / 2;
                        let q = chars.len() / 4;
                        vec![(0, h), (h, chars.len()), (q, 3 * q), (0, q), (3 * q, chars.len())]
                    } else {
                        (0..chars.len()).map(|k| (k, k + 1)).collect()
                    };
                    for (a, b) in cuts {
                        let t: String = chars[..a].iter().chain(chars[b..].iter()).collect();
                        let mut ops = self.ops.clone();
                        ops[i] = Op::Line {
                            text: t,
                            replies: replies.clone(),
                            keys: keys.clone(),
                            intrs: intrs.clone(),
                            budget: *budget,
                        };
                        out.push(Box::new(C03Case { ops, ..self.clone() }));
                    }
                }
            }
        }
        if self.sched_variant != 1 {
            out.push(Box::new(C03Case {
                sched_variant: 1,
                ..self.clone()
            }));
        }
        out
    }

    fn describe(&self) -> Json {
        let ops: Vec<Json> = self
            .ops
            .iter()
            .map(|op| match op {
                Op::Line {
                    text,
                    replies,
                    keys,
                    intrs,
                    budget,
                } => {
                    let mut o = obj().set("line", text.clone());
                    if !replies.is_empty() {
                        o = o.set("replies", replies.clone());
                    }
                    if !keys.is_empty() {
                        o = o.set("keys", keys.clone());
                    }
                    if !intrs.is_empty() {
                        o = o.set(
                            "interrupts",
                            Json::Arr(intrs.iter().map(|w| Json::Str(format!("{:?}", w))).collect()),
                        );
                    }
                    o.set("instruction_budget", *budget).build()
                }
                Op::Snap => Json::Str("take and hold a get_listing() snapshot".into()),
                Op::SnapDrop(i) => Json::Str(format!("drop snapshot {}", i)),
                Op::SnapCheck(i) => Json::Str(format!("re-read snapshot {}", i)),
                Op::Tab(n) => Json::Str(format!("TAB completion lookup of line {}", n)),
                Op::File(name, lines) => obj().set("file", name.clone()).set("lines", lines.clone()).build(),
            })
            .collect();
        obj()
            .set("kind", "C03 hostile session, then canary `PRINT 7` and LIST")
            .set("ops", Json::Arr(ops))
            .set("quantum_schedule_variant", self.sched_variant)
            .set("quantum_schedule_seed", self.sched_seed)
            .set("entropy", self.entropy)
            .set("every_interrupt_delivered_twice", self.entropy % 4 == 1)
            .build()
    }
}

/// White space of every kind in front of, inside and behind a line (pasted text, foreign files).
const SPACES: &[&str] = &[" ", "\t", "\u{a0}", "\u{2003}", "\u{3000}", "\u{feff}", "\r", "\u{85}", "\u{2028}", "\u{200b}", "\u{1680}"];

pub fn hostile_line(rng: &mut Rng, valid: &[String]) -> String {
    let line = hostile_line_plain(rng, valid);
    if !rng.pct(10) {
        return line;
    }
    let mut out = String::new();
    for _ in 0..(1 + rng.below(3)) {
        out.push_str(rng.pick::<&str>(SPACES));
    }
    // also between a leading number and the rest, and at the end
    let digits: String = line.chars().take_while(|c| c.is_ascii_digit()).collect();
    if !digits.is_empty() && rng.pct(50) {
        out.push_str(&digits);
        out.push_str(rng.pick::<&str>(SPACES));
        out.push_str(&line[digits.len()..]);
    } else {
        out.push_str(&line);
    }
    if rng.pct(30) {
        out.push_str(rng.pick::<&str>(SPACES));
    }
    out
}

fn hostile_line_plain(rng: &mut Rng, valid: &[String]) -> String {
    match rng.below(100) {
        0..=14 => soup_bytes(rng),
        15..=39 => token_soup(rng),
        40..=59 => {
            if valid.is_empty() {
                token_soup(rng)
            } else {
                { let l = rng.pick::<String>(valid).clone(); mutate_line(rng, &l) }
            }
        }
        60..=84 => rng.pick::<&str>(IDIOMS).to_string(),
        85..=88 => boundary_line(rng),
        89..=91 => deep_nesting(rng),
        _ => {
            if valid.is_empty() {
                "RUN".to_string()
            } else {
                rng.pick::<String>(valid).clone()
            }
        }
    }
}

impl Property for C03 {
    fn id(&self) -> &'static str {
        "C03"
    }
    fn generate(&self, rng: &mut Rng, tier: Tier) -> Box<dyn Case> {
        let mut cfg = GenCfg::swarm(rng);
        cfg.size = *rng.pick(&[2usize, 4, 6]);
        if tier == Tier::Thorough && rng.pct(35) {
            // the thorough tier also explores larger programs
            cfg.size *= 2;
        }
        cfg.inkey = rng.pct(20);
        let prog = gen_program(rng, cfg);
        let valid = render_program(&prog);
        let n = 1 + rng.below(14) as usize;
        let mut ops: Vec<Op> = vec![];
        let mut snaps = 0usize;
        if rng.pct(30) {
            let lines: Vec<String> = if rng.pct(60) {
                valid.clone()
            } else {
                (0..4).map(|_| hostile_line(rng, &valid)).collect()
            };
            ops.push(Op::File("F1".into(), lines));
        }
        let enter_valid_first = rng.pct(40);
        if enter_valid_first {
            for l in &valid {
                ops.push(Op::Line {
                    text: l.clone(),
                    replies: vec![],
                    keys: vec![],
                    intrs: vec![],
                    budget: 100,
                });
            }
        }
        for _ in 0..n {
            match rng.below(20) {
                0 => {
                    ops.push(Op::Snap);
                    snaps += 1;
                }
                1 if snaps > 0 => ops.push(Op::SnapDrop(rng.usize(snaps))),
                2 if snaps > 0 => ops.push(Op::SnapCheck(rng.usize(snaps))),
                3 => ops.push(Op::Tab(*rng.pick(&[0usize, 10, 20, 100, 65529, 65530, 1 << 40]))),
                4..=5 => {
                    let cmd = rng
                        .pick(&["RUN", "CONT", "LIST", "RUN", "NEW", "CLEAR", "RENUM", "LIST 10-", "DELETE 10-20", "RUN 20"])
                        .to_string();
                    ops.push(Op::Line {
                        text: cmd,
                        replies: (0..rng.below(4)).map(|_| hostile_reply(rng)).collect(),
                        keys: (0..rng.below(3)).map(|_| rng.pick(&["", "a", "\u{0}H", "é"]).to_string()).collect(),
                        intrs: rand_intrs(rng),
                        budget: *rng.pick(&[50u64, 500, 5000]),
                    });
                }
                _ => {
                    let text = hostile_line(rng, &valid);
                    ops.push(Op::Line {
                        text,
                        replies: (0..rng.below(4)).map(|_| hostile_reply(rng)).collect(),
                        keys: (0..rng.below(3)).map(|_| rng.pick(&["", "a", "\u{0}H", "é"]).to_string()).collect(),
                        intrs: rand_intrs(rng),
                        budget: *rng.pick(&[50u64, 500, 5000, 70_000]),
                    });
                }
            }
        }
        Box::new(C03Case {
            ops,
            sched_variant: rng.usize(6),
            sched_seed: rng.next_u64(),
            entropy: rng.next_u64(),
        })
    }
    fn budget(&self, tier: Tier) -> Budget {
        match tier {
            Tier::Quick => Budget {
                runs: 600_000,
                watchdog_s: 60,
            },
            Tier::Thorough => Budget {
                runs: 20_000_000,
                watchdog_s: 60,
            },
        }
    }
    fn rule(&self) -> &'static str {
        "one evaluation = one simulated session of 1-14 hostile operator actions (byte soup, token soup, mutated valid program lines, boundary idioms, lines at the 1024 limit, deep nesting, commands, hostile INPUT replies, interrupts at instruction / slice / wait-state instants, snapshot holders, SimDisk loads) under a seeded quantum schedule, ended by the canary; distinct = distinct fingerprint of the full API-call/event log; non-trivial = at least one hostile line was entered"
    }
    fn assumptions(&self) -> Vec<&'static str> {
        vec![
            "calling protocol respected: enter() only after Stopped / Input / Inkey events; interrupt() at any slice boundary",
            "interrupt while an INKEY$ request is pending is not injected (the shipped UI answers the request before polling Ctrl-C)",
            "?INTERNAL ERROR reports are BASIC errors by the manual's table: counted as a probe, not reported",
            "hangs are detected by fuel counters in the scanner/parser/VM loops (deterministic) and by a per-worker wall-clock watchdog (backstop)",
            "stack overflow / abort of the process is detected by the parent process; debug assertions and overflow checks are on, as in the repository's test profile",
            "exponentially growing string temporaries (FN nesting) are driven by C18, not here",
        ]
    }
    fn required_probes(&self) -> Vec<&'static str> {
        vec![
            "fault.interrupt",
            "fault.overlong_line",
            "fault.live_snapshot_during_enter",
            "intr.state.Input",
            "intr.state.Listing",
            "intr.state.Stopped",
            "disk.load",
            "snapshot.tab",
        ]
    }
}
