//! C09, C10, C11, C17: workloads that over-sample one family of statements and
//! one family of session histories, all judged by RefBASIC through `C01Case`.

use crate::ast::*;
use crate::framework::*;
use crate::gen::{gen_program, Emph, GenCfg};
use crate::json::{obj, Json};
use crate::prng::Rng;
use crate::props::c01::{finish_session, sched_of, C01Case, Step};
use crate::props::c03::fatal_violation;
use crate::refbasic::Ended;
use crate::session::*;
use crate::world::*;

fn base_case(rng: &mut Rng, prog: Program, prop: &'static str) -> C01Case {
    C01Case {
        prog,
        session: vec![],
        replies: vec![],
        sched_variant: rng.usize(7),
        sched_seed: rng.next_u64(),
        entropy: rng.next_u64(),
        hold_snapshot: rng.pct(10),
        prop,
    }
}

/// Extend a session step by step, letting the reference model say how the previous step ended.
fn grow<F: FnMut(&mut Rng, &C01Case, Option<Ended>, usize) -> Option<Step>>(rng: &mut Rng, case: &mut C01Case, max_steps: usize, mut next: F) {
    let auto = rng.fork();
    for i in 0..max_steps {
        let (res, r) = case.reference(Some(auto.clone()));
        case.replies = r.used_replies.clone();
        if r.grey.is_some() || res.len() < case.session.len() {
            return;
        }
        let last = res.last().map(|x| x.1.clone());
        if matches!(last, Some(Ended::NeedInput) | Some(Ended::Budget)) {
            return;
        }
        match next(rng, case, last, i) {
            Some(s) => case.session.push(s),
            None => break,
        }
    }
    let (_res, r) = case.reference(Some(auto));
    case.replies = r.used_replies.clone();
}

fn current_program(case: &C01Case) -> Program {
    let mut cur = case.prog.clone();
    for s in &case.session {
        if let Step::Edit(p) | Step::Renum(_, p) = s {
            cur = p.clone();
        }
    }
    cur
}

// ---------------------------------------------------------------------------
// C09

pub struct C09;

fn data_edit(rng: &mut Rng, cur: &Program) -> Option<Program> {
    let mut p = cur.clone();
    let data_lines: Vec<usize> = (0..p.lines.len())
        .filter(|i| p.lines[*i].stmts.len() == 1 && matches!(p.lines[*i].stmts[0], Stmt::Data(_)))
        .collect();
    // deleting a line is only safe when nothing refers to it: DATA lines are referenced by RESTORE n only
    let referenced = |p: &Program, idx: usize| -> bool {
        let mut hit = false;
        for l in &p.lines {
            crate::gen::walk_stmts(&l.stmts, &mut |s| {
                let mut s2 = s.clone();
                crate::gen::map_targets_stmt(&mut s2, &mut |t| {
                    if *t == Target::L(idx) {
                        hit = true;
                    }
                });
            });
        }
        hit
    };
    if !data_lines.is_empty() && rng.pct(40) {
        let idx = *rng.pick(&data_lines);
        if rng.pct(50) {
            // change the items of a DATA line
            p.lines[idx].stmts = vec![Stmt::Data(vec![Expr::Int(rng.range(50, 60) as i16), Expr::Str("NEW".into())])];
            return Some(p);
        }
        if !referenced(&p, idx) {
            p.lines.remove(idx);
            crate::gen::map_targets(&mut p, &mut |t| {
                if let Target::L(i) = t {
                    if *i > idx {
                        *i -= 1;
                    }
                }
            });
            return Some(p);
        }
    }
    // insert a DATA line in a free number
    if p.lines.is_empty() {
        return None;
    }
    let at = rng.usize(p.lines.len() + 1);
    let lo = if at == 0 { -1i32 } else { p.lines[at - 1].num as i32 };
    let hi = if at < p.lines.len() { p.lines[at].num as i32 } else { 65530 };
    if hi - lo < 2 {
        return None;
    }
    let num = (lo + 1 + rng.below(((hi - lo - 1) as u64).min(5)) as i32) as u16;
    let items = match rng.below(3) {
        0 => vec![Expr::Int(41), Expr::Int(42)],
        1 => vec![Expr::Str("INS".into())],
        _ => vec![Expr::Sng(9.5), Expr::Str("é".into()), Expr::int(-3)],
    };
    p.lines.insert(
        at,
        Line {
            num,
            stmts: vec![Stmt::Data(items)],
        },
    );
    crate::gen::map_targets(&mut p, &mut |t| {
        if let Target::L(i) = t {
            if *i >= at {
                *i += 1;
            }
        }
    });
    Some(p)
}

/// An edit that does not touch the DATA: a REM line inserted at a free number.
fn rem_edit(rng: &mut Rng, cur: &Program) -> Option<Program> {
    let mut p = cur.clone();
    if p.lines.is_empty() {
        return None;
    }
    let at = rng.usize(p.lines.len() + 1);
    let lo = if at == 0 { -1i32 } else { p.lines[at - 1].num as i32 };
    let hi = if at < p.lines.len() { p.lines[at].num as i32 } else { 65530 };
    if hi - lo < 2 {
        return None;
    }
    let num = (lo + 1 + rng.below(((hi - lo - 1) as u64).min(5)) as i32) as u16;
    p.lines.insert(
        at,
        Line {
            num,
            stmts: vec![Stmt::Rem("edited".into(), false)],
        },
    );
    crate::gen::map_targets(&mut p, &mut |t| {
        if let Target::L(i) = t {
            if *i >= at {
                *i += 1;
            }
        }
    });
    Some(p)
}

fn direct_read(rng: &mut Rng) -> Vec<Stmt> {
    let t = match rng.below(4) {
        0 => LVal::scalar("S$"),
        1 => LVal::scalar("N%"),
        2 => LVal::scalar("U#"),
        _ => LVal::scalar("A"),
    };
    let name = render_lval(&Program::default(), &t);
    vec![
        Stmt::Read(vec![t]),
        Stmt::Print {
            q: false,
            items: vec![PItem::E(Expr::Str("<".into())), PItem::Semi, PItem::E(Expr::var(&name)), PItem::Semi, PItem::E(Expr::Str(">".into()))],
        },
    ]
}

/// The DATA position (and the variables read so far) must survive a run that dies of pool exhaustion:
/// the next READ typed at the prompt delivers the next constant.
#[derive(Clone)]
struct C09PoolCase {
    reads: usize,
    restore_first: bool,
    kind: u32,
    sched_variant: usize,
    entropy: u64,
}

impl C09PoolCase {
    fn program(&self) -> Vec<String> {
        let mut p = vec!["10 DATA 11,22,33".to_string(), "15 DATA 44,55,66,77".to_string()];
        if self.restore_first {
            p.push("18 RESTORE 15".into());
        }
        let names = ["A", "B", "C"];
        let mut n = 20;
        for v in names.iter().take(self.reads) {
            p.push(format!("{} READ {}", n, v));
            n += 2;
        }
        p.push(match self.kind % 3 {
            0 => "40 GOSUB 40".to_string(),
            1 => "40 FOR I=1 TO 2:FOR J=1 TO 2:GOTO 40".to_string(),
            _ => "40 DEF FNR(X)=FNR(X+1)+1:Q=FNR(1)".to_string(),
        });
        p
    }
}

impl Case for C09PoolCase {
    fn execute(&self) -> Verdict {
        let mut v = Verdict::default();
        let mut w = World::booted(sched_of(self.sched_variant, self.entropy), self.entropy, false);
        let prog = self.program();
        enter_program(&mut w, &prog);
        let o = w.line("RUN", &LineIo::budget(3_000_000));
        let errs: Vec<String> = w.events[o.ev_start..o.ev_end]
            .iter()
            .filter_map(|e| if let Ev::Errors(es) = e { Some(es.iter().map(|x| x.text.clone()).collect::<Vec<_>>().join("|")) } else { None })
            .collect();
        let oom = errs.iter().any(|e| e.starts_with("?OUT OF MEMORY"));
        let all: Vec<i32> = if self.restore_first { vec![44, 55, 66, 77] } else { vec![11, 22, 33, 44, 55, 66, 77] };
        let mut fail: Option<Violation> = None;
        if !oom {
            v.discarded = Some(format!("no pool exhaustion ({:?}, budget_hit={})", errs, o.budget_hit));
        } else {
            w.stats.bump("c09.pool_exhausted_after_reads");
            // the variables read before the fault, then the next constant
            let mut want = String::new();
            for k in 0..self.reads {
                want.push_str(&format!(" {} ", all[k]));
            }
            want.push_str(&format!("< {} >\n", all[self.reads]));
            let o = w.line("READ X:PRINT A;B;C;\"<\";X;\">\"".replace("A;B;C;", &["A;", "B;", "C;"][..self.reads].concat()).as_str(), &LineIo::budget(2000));
            let t = tokens(&w.events[o.ev_start..o.ev_end]);
            if t != vec![Tok::Out(want.clone())] && w.fatal.is_none() {
                fail = Some(Violation {
                    key: "C09:data-position-after-pool-exhaustion".into(),
                    detail: format!("after {} READs and a run that ended in OUT OF MEMORY, the direct READ line printed {:?}, expected {:?}", self.reads, t, want),
                });
            }
        }
        if let Some(ft) = &w.fatal {
            fail = Some(fatal_violation("C09", ft));
        }
        v.violation = fail;
        v.stats.merge(&w.stats);
        v.instr = w.total_instr;
        v.sim_us = w.sim_us;
        v.executions = 1;
        v.fingerprint = w.log_hash;
        v.nontrivial = true;
        v
    }
    fn shrink(&self) -> Vec<Box<dyn Case>> {
        let mut out: Vec<Box<dyn Case>> = vec![];
        if self.restore_first {
            out.push(Box::new(C09PoolCase {
                restore_first: false,
                ..self.clone()
            }));
        }
        if self.sched_variant != 1 {
            out.push(Box::new(C09PoolCase {
                sched_variant: 1,
                ..self.clone()
            }));
        }
        out
    }
    fn describe(&self) -> Json {
        obj()
            .set("kind", "C09 READs, then the run dies of pool exhaustion (GOSUB / FOR / FN recursion); a direct READ must deliver the next constant and the variables read so far must be intact")
            .set("program", program_json(&self.program()))
            .set("quantum_schedule_variant", self.sched_variant)
            .build()
    }
}

impl Property for C09 {
    fn id(&self) -> &'static str {
        "C09"
    }
    fn generate(&self, rng: &mut Rng, tier: Tier) -> Box<dyn Case> {
        let mut cfg = GenCfg::swarm(rng);
        cfg.emph = Emph::Data;
        cfg.data = true;
        cfg.tron = false;
        cfg.size = *rng.pick(&[3usize, 5, 8, 12]);
        if tier == Tier::Thorough && rng.pct(35) {
            // the thorough tier also explores larger programs
            cfg.size *= 2;
        }
        cfg.stop = rng.pct(40);
        cfg.doubles = rng.pct(40);
        if rng.below(150) == 0 {
            return Box::new(C09PoolCase {
                reads: 1 + rng.usize(3),
                restore_first: rng.pct(30),
                kind: rng.below(3) as u32,
                sched_variant: rng.usize(7),
                entropy: rng.next_u64(),
            });
        }
        if rng.below(200) == 0 {
            // every interrupt instant of a READ-heavy program (between Read and its store, too), CONT
            cfg.inkey = false;
            return crate::props::c13::interrupt_case(rng, cfg, "C09", 300);
        }
        let mut prog = gen_program(rng, cfg);
        // the highest legal line number carries DATA of its own: RESTORE 65529 typed at the prompt must
        // find it (and not whatever the direct statement's own code is filed under)
        let last_line_data = rng.pct(8) && prog.lines.last().map(|l| l.num < 65529).unwrap_or(false);
        if last_line_data {
            prog.lines.push(Line {
                num: 65529,
                stmts: vec![Stmt::Data(vec![Expr::Int(77), Expr::Str("LAST".into())])],
            });
        }
        let mut case = base_case(rng, prog, "C09");
        case.session.push(Step::Direct(vec![Stmt::Run(None)]));
        let steps = 1 + rng.below(7) as usize;
        let mut pending: Vec<Step> = vec![];
        if last_line_data {
            pending.push(Step::Direct(vec![Stmt::Read(vec![LVal::scalar("A")]), Stmt::Print { q: false, items: vec![PItem::E(Expr::var("A"))] }]));
            pending.push(Step::Direct(vec![Stmt::Restore(Some(Target::L(case.prog.lines.len() - 1)))]));
        }
        let mut keeps_position = false;
        let mut forced: std::collections::VecDeque<Step> = std::collections::VecDeque::new();
        grow(rng, &mut case, steps, |rng, case, last, _i| {
            if let Some(s) = forced.pop_front() {
                return Some(s);
            }
            let cur = current_program(case);
            if rng.pct(5) && !cur.lines.is_empty() {
                // NEW, then a program typed in again, then a READ at the prompt without RUN: NEW is
                // CLEAR plus an empty listing, the READ delivers the first constant
                forced.push_back(Step::Edit(case.prog.clone()));
                forced.push_back(Step::Direct(direct_read(rng)));
                return Some(Step::Renum("NEW".to_string(), Program::default()));
            }
            let after_edit = matches!(case.session.last(), Some(Step::Edit(_)) | Some(Step::Renum(..)));
            if !after_edit {
                if let Some(s) = pending.pop() {
                    return Some(s);
                }
                if rng.pct(8) && !cur.lines.is_empty() {
                    // DATA typed in direct mode must not become part of the program's list:
                    // position at the very end, read once more
                    let item = if rng.pct(50) { Expr::Int(7) } else { Expr::Str("DIRECT".into()) };
                    let target = if matches!(item, Expr::Int(_)) { LVal::scalar("A") } else { LVal::scalar("S$") };
                    pending.push(Step::Direct(vec![Stmt::Read(vec![target])]));
                    pending.push(Step::Direct(vec![Stmt::Restore(Some(Target::L(cur.lines.len() - 1)))]));
                    return Some(Step::Direct(vec![Stmt::Data(vec![item])]));
                }
            }
            if after_edit && keeps_position {
                // the edit left the DATA alone: reading goes on where it was
                keeps_position = false;
                return Some(Step::Direct(direct_read(rng)));
            }
            if after_edit {
                // the position after an edit of the DATA is only defined again by RUN / CLEAR / RESTORE
                return Some(Step::Direct(match rng.below(4) {
                    0 => vec![Stmt::Clear],
                    1 => vec![Stmt::Restore(None)],
                    _ => vec![Stmt::Run(None)],
                }));
            }
            Some(match rng.below(12) {
                0..=2 => Step::Direct(direct_read(rng)),
                3 => Step::Direct(vec![Stmt::Restore(None)]),
                4 => {
                    if cur.lines.is_empty() {
                        Step::Direct(vec![Stmt::Restore(None)])
                    } else {
                        Step::Direct(vec![Stmt::Restore(Some(Target::L(rng.usize(cur.lines.len()))))])
                    }
                }
                5 if rng.pct(35) && !cur.lines.is_empty() => {
                    // RENUM: every RESTORE n has to follow its line
                    let new = *rng.pick(&[1u32, 100, 1000, 7]);
                    let step = *rng.pick(&[1u32, 3, 10, 10]);
                    let old = if rng.pct(30) { Some(cur.lines[rng.usize(cur.lines.len())].num as u32) } else { None };
                    let valid = |p: &Program| p.lines.windows(2).all(|w| w[0].num < w[1].num);
                    match crate::props::c14::model_renum(&cur, Some(new), old, Some(step)) {
                        Some((p, _)) if valid(&p) => Step::Renum(
                            match old {
                                Some(o) => format!("RENUM {},{},{}", new, o, step),
                                None => format!("RENUM {},,{}", new, step),
                            },
                            p,
                        ),
                        _ => Step::Direct(vec![Stmt::Run(None)]),
                    }
                }
                5 | 6 if rng.pct(35) => match rem_edit(rng, &cur) {
                    Some(p) => {
                        keeps_position = true;
                        Step::Edit(p)
                    }
                    None => Step::Direct(vec![Stmt::Run(None)]),
                },
                5..=6 => match data_edit(rng, &cur) {
                    Some(p) => Step::Edit(p),
                    None => Step::Direct(vec![Stmt::Run(None)]),
                },
                7 => Step::Direct(vec![Stmt::Clear]),
                8..=9 => {
                    if matches!(last, Some(Ended::Break)) || (matches!(last, Some(Ended::Ready)) && rng.pct(30)) {
                        Step::Direct(vec![Stmt::Cont])
                    } else {
                        Step::Direct(vec![Stmt::Run(None)])
                    }
                }
                _ => Step::Direct(vec![Stmt::Run(None)]),
            })
        });
        Box::new(case)
    }
    fn budget(&self, tier: Tier) -> Budget {
        match tier {
            Tier::Quick => Budget {
                runs: 300_000,
                watchdog_s: 60,
            },
            Tier::Thorough => Budget {
                runs: 10_000_000,
                watchdog_s: 60,
            },
        }
    }
    fn rule(&self) -> &'static str {
        "one evaluation = a generated program with DATA lines before, between and after the code (also inside never-executed IF branches), READ lists of 1-4 targets of every type, RESTORE and RESTORE n to arbitrary existing lines, plus a session of 2-8 steps: RUN, direct-mode READ/RESTORE/RESTORE n between runs, edits that insert, change or delete DATA lines, or RENUM, followed by RUN / CLEAR / RESTORE, CLEAR, STOP + direct READ + CONT, DATA typed as a direct statement followed by RESTORE <last line> and READ; (0.7%) a program that READs 1-3 constants and then dies of pool exhaustion, followed by a direct READ; (0.5%) the interrupt / CONT enumeration of C13 over a READ-heavy program; every typed line's screen transcript is compared with RefBASIC's data-pointer model; distinct = distinct API/event log fingerprint; non-trivial = more than 10 VM instructions"
    }
    fn assumptions(&self) -> Vec<&'static str> {
        vec![
            "where the DATA pointer is after an edit is not settled by the manual: a READ directly after an edit (without RUN / CLEAR / RESTORE) discards the case",
            "interrupts between READ and its store are enumerated by C13 (programs with READ are part of its workload), not here",
            "all C01 assumptions apply (RefBASIC rules of DESIGN.md appendix B)",
        ]
    }
    fn required_probes(&self) -> Vec<&'static str> {
        vec!["reach.READ", "reach.RESTORE", "fault.edit", "reach.CONT", "c01.lines_compared", "c01.direct_data_not_judged", "c09.pool_exhausted_after_reads", "c13.intr_judged", "fault.renum"]
    }
}

// ---------------------------------------------------------------------------
// C10

pub struct C10;

#[derive(Clone)]
struct OomCase {
    lines: Vec<String>,
    run: String,
    sched_variant: usize,
    entropy: u64,
}

impl Case for OomCase {
    fn execute(&self) -> Verdict {
        let mut v = Verdict::default();
        let mut w = World::booted(crate::props::c01::sched_of(self.sched_variant, 7), self.entropy, false);
        enter_program(&mut w, &self.lines);
        let listing = w.listing_text();
        let o = w.line(&self.run, &LineIo::budget(2_000_000));
        let text = crate::props::c01::screen_text(&w.events[o.ev_start..o.ev_end]);
        let mut fail = None;
        if w.fatal.is_none() {
            if o.budget_hit {
                fail = Some(Violation {
                    key: "C10:recursion:no-out-of-memory".into(),
                    detail: format!("runaway recursion was still running after 2000000 instructions; transcript {:?}", text),
                });
            } else if !text.contains("?OUT OF MEMORY") {
                fail = Some(Violation {
                    key: "C10:recursion:wrong-outcome".into(),
                    detail: format!("runaway recursion ended with {:?}", text),
                });
            } else {
                v.stats.bump("c10.recursion_out_of_memory");
                let o2 = w.line("PRINT 7", &LineIo::budget(1000));
                let t = tokens(&w.events[o2.ev_start..o2.ev_end]);
                if w.fatal.is_none() && t != vec![Tok::Out(" 7 \n".into())] {
                    fail = Some(Violation {
                        key: "C10:recursion:canary".into(),
                        detail: format!("after OUT OF MEMORY `PRINT 7` gave {:?}", t),
                    });
                } else if w.fatal.is_none() && w.listing_text() != listing {
                    fail = Some(Violation {
                        key: "C10:recursion:listing-changed".into(),
                        detail: "the stored program changed".into(),
                    });
                } else if w.fatal.is_none() {
                    // and a small program still runs normally afterwards
                    w.line("NEW", &LineIo::budget(100));
                    w.line("10 DEF FNQ(X)=X*2", &LineIo::budget(100));
                    w.line("20 PRINT FNQ(21)", &LineIo::budget(100));
                    let o3 = w.line("RUN", &LineIo::budget(1000));
                    let t = tokens(&w.events[o3.ev_start..o3.ev_end]);
                    if w.fatal.is_none() && t != vec![Tok::Out(" 42 \n".into())] {
                        fail = Some(Violation {
                            key: "C10:recursion:session-not-usable".into(),
                            detail: format!("a fresh program after the exhaustion printed {:?}", t),
                        });
                    }
                }
            }
        }
        if let Some(f) = &w.fatal {
            fail = Some(fatal_violation("C10", f));
        }
        v.violation = fail;
        v.stats.merge(&w.stats);
        v.stats.bump("fault.pool_exhaustion");
        v.instr = w.total_instr;
        v.sim_us = w.sim_us;
        v.executions = 1;
        v.fingerprint = w.log_hash;
        v.nontrivial = true;
        v
    }
    fn shrink(&self) -> Vec<Box<dyn Case>> {
        let mut out: Vec<Box<dyn Case>> = vec![];
        for i in 0..self.lines.len() {
            let mut l = self.lines.clone();
            l.remove(i);
            out.push(Box::new(OomCase {
                lines: l,
                ..self.clone()
            }));
        }
        out
    }
    fn describe(&self) -> Json {
        obj()
            .set("kind", "C10 runaway user-function recursion must end in ?OUT OF MEMORY and leave the session usable")
            .set("program", program_json(&self.lines))
            .set("run", self.run.clone())
            .set("quantum_schedule_variant", self.sched_variant)
            .build()
    }
}

/// A refused call (wrong argument count, undefined function) inside a FOR loop or a subroutine:
/// the error is the documented one and the call leaves nothing behind, so the loop / subroutine is
/// resumed by hand (direct NEXT / RETURN) exactly as after a STOP at the same place (twin run).
#[derive(Clone)]
struct RefusedCallCase {
    /// program lines; `{}` in one of them marks the refused statement
    lines: Vec<String>,
    bad: String,
    expect: String,
    resume: Vec<String>,
    sched_variant: usize,
    entropy: u64,
}

impl RefusedCallCase {
    fn program(&self, stmt: &str) -> Vec<String> {
        self.lines.iter().map(|l| l.replace("{}", stmt)).collect()
    }
}

impl Case for RefusedCallCase {
    fn execute(&self) -> Verdict {
        let mut v = Verdict::default();
        let sched = |k: usize| crate::props::c01::sched_of(self.sched_variant + k, 7);
        let mut w = World::booted(sched(0), self.entropy, false);
        enter_program(&mut w, &self.program(&self.bad));
        let mut t = World::booted(sched(1), self.entropy, false);
        enter_program(&mut t, &self.program("STOP"));
        let mut fail = None;
        let o = w.line("RUN", &LineIo::budget(5000));
        let a = tokens(&w.events[o.ev_start..o.ev_end]);
        let o2 = t.line("RUN", &LineIo::budget(5000));
        let b = tokens(&t.events[o2.ev_start..o2.ev_end]);
        let bad_line = self.lines.iter().find(|l| l.contains("{}")).and_then(|l| l.split(' ').next()).unwrap_or("?").to_string();
        let expect = Tok::Err(format!("{} IN {}", self.expect, bad_line));
        if w.fatal.is_none() && t.fatal.is_none() {
            let mut want = b.clone();
            want.push(expect.clone());
            if a != want {
                fail = Some(Violation {
                    key: "C10:refused-call:report".into(),
                    detail: format!("RUN with `{}`: {} (the STOP twin plus {:?} is 'expected')", self.bad, first_diff(&want, &a), expect),
                });
            }
        }
        for r in &self.resume {
            if fail.is_some() || w.fatal.is_some() || t.fatal.is_some() {
                break;
            }
            let o = w.line(r, &LineIo::budget(5000));
            let a = tokens(&w.events[o.ev_start..o.ev_end]);
            let o2 = t.line(r, &LineIo::budget(5000));
            let b = tokens(&t.events[o2.ev_start..o2.ev_end]);
            v.stats.bump("c10.refused_call_resumed");
            if a != b && w.fatal.is_none() && t.fatal.is_none() {
                fail = Some(Violation {
                    key: "C10:refused-call:frames-disturbed".into(),
                    detail: format!("`{}` typed after the refused `{}`: {} (after a STOP at the same place is 'expected')", r, self.bad, first_diff(&b, &a)),
                });
            }
        }
        if let Some(f) = w.fatal.as_ref().or(t.fatal.as_ref()) {
            fail = Some(fatal_violation("C10", f));
        }
        v.violation = fail;
        v.stats.merge(&w.stats);
        v.stats.merge(&t.stats);
        v.instr = w.total_instr + t.total_instr;
        v.sim_us = w.sim_us;
        v.executions = 2;
        v.fingerprint = w.log_hash ^ t.log_hash.rotate_left(9);
        v.nontrivial = true;
        v
    }
    fn shrink(&self) -> Vec<Box<dyn Case>> {
        let mut out: Vec<Box<dyn Case>> = vec![];
        for i in 0..self.resume.len() {
            if self.resume.len() > 1 {
                let mut r = self.resume.clone();
                r.remove(i);
                out.push(Box::new(RefusedCallCase {
                    resume: r,
                    ..self.clone()
                }));
            }
        }
        if self.sched_variant != 0 {
            out.push(Box::new(RefusedCallCase {
                sched_variant: 0,
                ..self.clone()
            }));
        }
        out
    }
    fn describe(&self) -> Json {
        obj()
            .set("kind", "C10 refused call inside a loop / subroutine, resumed by hand; twin run with STOP in its place")
            .set("program", program_json(&self.program(&self.bad)))
            .set("refused_statement", self.bad.clone())
            .set("expected_error", self.expect.clone())
            .set("resume_lines", self.resume.clone())
            .set("quantum_schedule_variant", self.sched_variant)
            .build()
    }
}

fn refused_call_case(rng: &mut Rng) -> RefusedCallCase {
    let two = rng.pct(40);
    let def = if two { "10 DEF FNA(X,Y)=X*2+Y" } else { "10 DEF FNA(X)=X*2" };
    let good = if two { "FNA(I,1)" } else { "FNA(I)" };
    let (call, expect) = match rng.below(4) {
        0 => (if two { "FNA(I)" } else { "FNA(I,I)" }, "?ILLEGAL FUNCTION CALL"),
        1 => (if two { "FNA(I,I+1,FNA(1,2))" } else { "FNA(FNA(I),I,3)" }, "?ILLEGAL FUNCTION CALL"),
        2 => ("FNZ(I)", "?UNDEFINED USER FUNCTION"),
        _ => ("FNZ%(I,\"a\",2)", "?UNDEFINED USER FUNCTION"),
    };
    let bad = match rng.below(3) {
        0 => format!("PRINT {}", call),
        1 => format!("Q={}", call),
        _ => format!("Q!={}:PRINT \"NOT HERE\"", call),
    };
    let n = 2 + rng.below(3);
    let at = 1 + rng.below(n);
    let (lines, resume): (Vec<String>, Vec<String>) = match rng.below(4) {
        0 => (
            vec![
                def.to_string(),
                format!("20 FOR I=1 TO {}", n),
                format!("30 IF I={} THEN {{}} ELSE PRINT {}", at, good),
                "40 NEXT I".to_string(),
                "50 PRINT \"DONE\"".to_string(),
            ],
            vec![rng.pick(&["NEXT I", "NEXT"]).to_string()],
        ),
        1 => (
            vec![
                def.to_string(),
                "20 I=3:GOSUB 100:PRINT \"BACK\":END".to_string(),
                "100 {}".to_string(),
                "110 PRINT \"SUB\":RETURN".to_string(),
            ],
            vec!["RETURN".to_string()],
        ),
        2 => (
            vec![
                def.to_string(),
                "20 GOSUB 100:PRINT \"BACK\":END".to_string(),
                format!("100 FOR I=1 TO {}", n),
                format!("110 IF I={} THEN {{}}", at),
                format!("120 PRINT {};:NEXT I", good),
                "130 PRINT \"SUB\":RETURN".to_string(),
            ],
            if rng.pct(50) { vec!["NEXT I".to_string()] } else { vec!["RETURN".to_string()] },
        ),
        _ => (
            vec![
                def.to_string(),
                format!("20 FOR J=1 TO 2:FOR I=1 TO {}", n),
                format!("30 IF I={} AND J=1 THEN {{}}", at),
                format!("40 PRINT {};J;:NEXT I,J", good),
                "50 PRINT \"DONE\"".to_string(),
            ],
            vec![rng.pick(&["NEXT I", "NEXT J", "NEXT I,J", "NEXT"]).to_string()],
        ),
    };
    RefusedCallCase {
        lines,
        bad,
        expect: expect.to_string(),
        resume,
        sched_variant: rng.usize(7),
        entropy: rng.next_u64(),
    }
}

impl Property for C10 {
    fn id(&self) -> &'static str {
        "C10"
    }
    fn generate(&self, rng: &mut Rng, tier: Tier) -> Box<dyn Case> {
        if rng.pct(3) {
            return Box::new(refused_call_case(rng));
        }
        if rng.pct(2) {
            let lines: Vec<String> = match rng.below(4) {
                0 => vec!["10 DEF FNR(X)=FNR(X)+1".into(), "20 PRINT FNR(1)".into()],
                1 => vec![
                    "10 DEF FNA(X)=FNB(X+1)".into(),
                    "20 DEF FNB(Y)=FNA(Y*2)".into(),
                    "30 A=5:PRINT \"GO\";FNA(1)".into(),
                ],
                2 => vec![
                    "10 DEF FNS$(S$)=\"a\"+FNS$(S$)".into(),
                    "20 FOR I=1 TO 3:GOSUB 40:NEXT".into(),
                    "30 END".into(),
                    "40 T$=FNS$(\"x\"):RETURN".into(),
                ],
                _ => vec!["10 DEF FNR%(N%,A!,S$)=FNR%(N%,A!+1,S$)".into(), "20 DIM Q(FNR%(1,2,\"z\"))".into()],
            };
            return Box::new(OomCase {
                lines,
                run: "RUN".into(),
                sched_variant: rng.usize(7),
                entropy: rng.next_u64(),
            });
        }
        let mut cfg = GenCfg::swarm(rng);
        cfg.emph = Emph::Fn;
        cfg.fns = true;
        cfg.tron = false;
        cfg.arrays = rng.pct(70);
        cfg.input = rng.pct(40);
        cfg.errors = rng.pct(35);
        cfg.size = *rng.pick(&[3usize, 5, 8, 12]);
        if tier == Tier::Thorough && rng.pct(35) {
            // the thorough tier also explores larger programs
            cfg.size *= 2;
        }
        let prog = gen_program(rng, cfg.clone());
        let mut case = base_case(rng, prog, "C10");
        if rng.pct(10) {
            // DEF in direct mode is ILLEGAL DIRECT: alone, behind other statements, or inside IF
            let def = Stmt::DefFn {
                name: Var::new("Q"),
                params: vec![Var::new("X")],
                body: Expr::bin(BinOp::Add, Expr::var("X"), Expr::Int(1)),
            };
            let pr = Stmt::Print {
                q: false,
                items: vec![PItem::E(Expr::Int(1))],
            };
            let line = match rng.below(5) {
                0..=1 => vec![def],
                2 => vec![pr, def],
                3 => vec![Stmt::If {
                    cond: Expr::Int(1),
                    goto_form: false,
                    then: Branch::Stmts(vec![def]),
                    els: None,
                }],
                _ => vec![Stmt::If {
                    cond: Expr::Int(0),
                    goto_form: false,
                    then: Branch::Stmts(vec![pr]),
                    els: Some(Branch::Stmts(vec![def])),
                }],
            };
            case.session.push(Step::Direct(line));
            // and it defined nothing
            case.session.push(Step::Direct(vec![Stmt::Print {
                q: false,
                items: vec![PItem::E(Expr::Fn(Var::new("Q"), vec![Expr::Int(2)]))],
            }]));
        }
        case.session.push(Step::Direct(vec![Stmt::Run(None)]));
        let steps = rng.below(5) as usize;
        let mut fn_names: Vec<String> = vec![];
        for l in &case.prog.lines {
            crate::gen::walk_stmts(&l.stmts, &mut |s| {
                if let Stmt::DefFn { name, .. } = s {
                    if !fn_names.contains(&name.text()) {
                        fn_names.push(name.text());
                    }
                }
            });
        }
        for extra in ["A", "B", "C%"] {
            if fn_names.len() < 3 && !fn_names.iter().any(|n| n == extra) {
                fn_names.push(extra.to_string());
            }
        }
        grow(rng, &mut case, steps, |rng, case, last, _i| {
            let call = |rng: &mut Rng| -> Vec<Stmt> {
                // direct-mode calls of the program's functions, with globals changed between definition and call
                let f = rng.pick::<String>(&fn_names).clone();
                let f = f.as_str();
                let args = match rng.below(3) {
                    0 => vec![Expr::Int(2)],
                    1 => vec![Expr::Int(2), Expr::Sng(1.5)],
                    _ => vec![Expr::Int(2), Expr::Sng(1.5), Expr::Str("q".into())],
                };
                vec![
                    Stmt::Let {
                        kw: false,
                        target: LVal::scalar("G"),
                        expr: Expr::Sng(rng.range(1, 9) as f32 + 0.5),
                    },
                    Stmt::Print {
                        q: false,
                        items: vec![PItem::E(Expr::Fn(Var::new(f), args))],
                    },
                ]
            };
            Some(match rng.below(6) {
                0..=2 => Step::Direct(call(rng)),
                3 => {
                    if matches!(last, Some(Ended::Break)) {
                        Step::Direct(vec![Stmt::Cont])
                    } else {
                        Step::Direct(call(rng))
                    }
                }
                4 if rng.pct(50) => {
                    // DELETE of one simple, unreferenced line: an edit after which the functions are
                    // gone until their DEF executes again
                    let cur = current_program(case);
                    let simple = |l: &Line| {
                        let mut ok = true;
                        crate::gen::walk_stmts(&l.stmts, &mut |s| {
                            if !matches!(s, Stmt::Let { .. } | Stmt::Print { .. } | Stmt::Rem(..) | Stmt::DefFn { .. } | Stmt::Swap(..) | Stmt::MidSet { .. } | Stmt::Dim(_)) {
                                ok = false;
                            }
                        });
                        ok
                    };
                    let referenced = |p: &Program, idx: usize| -> bool {
                        let mut hit = false;
                        for l in &p.lines {
                            crate::gen::walk_stmts(&l.stmts, &mut |s| {
                                let mut s2 = s.clone();
                                crate::gen::map_targets_stmt(&mut s2, &mut |t| {
                                    if *t == Target::L(idx) {
                                        hit = true;
                                    }
                                });
                            });
                        }
                        hit
                    };
                    let cands: Vec<usize> = (0..cur.lines.len()).filter(|i| simple(&cur.lines[*i]) && !referenced(&cur, *i)).collect();
                    if cands.is_empty() {
                        Step::Direct(vec![Stmt::Clear])
                    } else {
                        let idx = *rng.pick(&cands);
                        let num = cur.lines[idx].num;
                        let mut p = cur.clone();
                        p.lines.remove(idx);
                        crate::gen::map_targets(&mut p, &mut |t| {
                            if let Target::L(i) = t {
                                if *i > idx {
                                    *i -= 1;
                                }
                            }
                        });
                        Step::Renum(format!("DELETE {}", num), p)
                    }
                }
                4 => Step::Direct(vec![Stmt::Clear]),
                _ => Step::Direct(vec![Stmt::Run(None)]),
            })
        });
        Box::new(case)
    }
    fn budget(&self, tier: Tier) -> Budget {
        match tier {
            Tier::Quick => Budget {
                runs: 300_000,
                watchdog_s: 120,
            },
            Tier::Thorough => Budget {
                runs: 10_000_000,
                watchdog_s: 120,
            },
        }
    }
    fn rule(&self) -> &'static str {
        "one evaluation = a generated program defining 2-3 user functions (1-3 parameters of Integer/Single/String type named like program variables, bodies reading globals and calling earlier functions) and calling them inside PRINT lists, subscripts, FOR headers, IF predicates, ON selectors and other calls' arguments, with planted wrong-arity / undefined-function calls, plus a session (DEF typed in direct mode, RUN, direct-mode calls with globals changed after the definition, CLEAR followed by calls, DELETE of a line followed by calls, CONT) judged by RefBASIC (parameters in a local frame, everything else global at call time); 2% of the evaluations are runaway recursion programs that must end in ?OUT OF MEMORY with the session still usable; 3% are refused calls (wrong argument count, undefined function; in PRINT or an assignment) inside a FOR loop, a subroutine or both, reported with the documented error and then resumed by hand with NEXT / RETURN, compared with a twin run that has STOP in the call's place; distinct = distinct API/event log fingerprint"
    }
    fn assumptions(&self) -> Vec<&'static str> {
        vec![
            "functions take at least one parameter (the manual's syntax; `DEF FNA()` is a syntax error)",
            "after an edit (here: DELETE of one simple unreferenced line) every function is undefined until its DEF executes again, as on a fresh interpreter fed the listing",
            "a runtime error raised inside a function body defined on another line discards the case: which line is reported is not settled",
            "user-function calls while TRON is on discard the case",
            "the type of an unsuffixed parameter under DEFtype is a grey zone: parameters are suffixed or DEFtype is absent",
        ]
    }
    fn required_probes(&self) -> Vec<&'static str> {
        vec!["reach.DEF", "c01.lines_compared", "c10.recursion_out_of_memory", "fault.pool_exhaustion", "c10.refused_call_resumed"]
    }
}

// ---------------------------------------------------------------------------
// C11

pub struct C11;

fn print_line(rng: &mut Rng) -> Vec<Stmt> {
    // hand-shaped print lists around the zone and TAB boundaries
    let mut items = vec![];
    let n = 1 + rng.below(6);
    for _ in 0..n {
        let e = match rng.below(12) {
            0 => Expr::Str("A".repeat(rng.range(0, 16) as usize)),
            1 => Expr::Str("é日".repeat(rng.range(1, 4) as usize)),
            2 => Expr::Call(Builtin::Tab, vec![Expr::int(*rng.pick(&[0, 1, 13, 14, 15, 27, 28, 29, 40, 255, -1, -14, -5, -255]))]),
            3 => Expr::Call(Builtin::Spc, vec![Expr::Int(*rng.pick(&[0i16, 1, 13, 14, 255]))]),
            4 => Expr::Call(Builtin::Pos, vec![Expr::Int(0)]),
            // the Integer limits (NOT 32767 is the Integer -32768, which no literal spells)
            5 if rng.pct(15) => match rng.below(3) {
                0 => Expr::Not(Box::new(Expr::Int(32767))),
                1 => Expr::int(-32767),
                _ => Expr::Int(32767),
            },
            5 => Expr::int(rng.range(-120, 32000) as i32),
            6 => Expr::Sng(rng.range(0, 400) as f32 * 0.25),
            7 => Expr::Dbl(rng.range(0, 4000) as f64 * 0.125),
            8 => Expr::bin(BinOp::Add, Expr::Str("x".into()), Expr::Call(Builtin::Chr, vec![Expr::Int(10)])),
            9 => Expr::Neg(Box::new(Expr::Sng(rng.range(1, 99) as f32 * 0.5))),
            10 => Expr::Call(Builtin::Str, vec![Expr::int(rng.range(-9, 99) as i32)]),
            _ => Expr::Str("OK".into()),
        };
        let neg_start = matches!(e, Expr::Neg(_));
        if !items.is_empty() && matches!(items.last(), Some(PItem::E(_))) {
            let prev_lit = matches!(items.last(), Some(PItem::E(Expr::Str(_))));
            if prev_lit && !neg_start && rng.pct(25) {
                // juxtaposition
            } else if rng.pct(45) {
                items.push(PItem::Comma);
            } else {
                items.push(PItem::Semi);
            }
        } else if rng.pct(15) {
            items.push(PItem::Comma);
        }
        items.push(PItem::E(e));
    }
    match rng.below(4) {
        0 => items.push(PItem::Semi),
        1 => items.push(PItem::Comma),
        _ => {}
    }
    vec![Stmt::Print { q: false, items }]
}

/// A program that chains to a file with `RUN "B"` while the cursor is mid-line: the chained program's
/// first print items (POS, TAB, ',') must see the true column, exactly as if the pending output had
/// been printed by the chained program itself.
#[derive(Clone)]
struct C11ChainCase {
    pending: String,
    first_line: String,
    load_only: bool,
    sched_variant: usize,
    entropy: u64,
}

impl Case for C11ChainCase {
    fn execute(&self) -> Verdict {
        let mut v = Verdict::default();
        let b = vec![format!("10 {}", self.first_line), "20 PRINT \"|\";POS(0)".to_string()];
        let mut w = World::booted(sched_of(self.sched_variant, self.entropy), self.entropy, false);
        w.disk.insert("B".into(), b.clone());
        w.line(&format!("10 PRINT \"{}\";:RUN \"B\"", self.pending), &LineIo::budget(200));
        let o = w.line("RUN", &LineIo::budget(5000));
        let t1 = tokens(&w.events[o.ev_start..o.ev_end]);
        // twin: the pending output printed by the chained program itself
        let mut f = World::booted(Sched::fixed(DEFAULT_Q), self.entropy, false);
        f.line(&format!("5 PRINT \"{}\";", self.pending), &LineIo::budget(200));
        for l in &b {
            f.line(l, &LineIo::budget(200));
        }
        let o2 = f.line("RUN", &LineIo::budget(5000));
        let t2 = tokens(&f.events[o2.ev_start..o2.ev_end]);
        let strip = |t: Vec<Tok>| -> Vec<Tok> { t.into_iter().filter(|x| !matches!(x, Tok::Other(_))).collect() };
        let mut merged1: Vec<Tok> = vec![];
        merge_tokens(&mut merged1, strip(t1));
        let mut merged2: Vec<Tok> = vec![];
        merge_tokens(&mut merged2, strip(t2));
        let mut fail: Option<Violation> = None;
        w.stats.bump("c11.chained_run_mid_line");
        if merged1 != merged2 && w.fatal.is_none() && f.fatal.is_none() {
            fail = Some(Violation {
                key: "C11:chained-run:column".into(),
                detail: format!(
                    "`10 PRINT \"{}\";:RUN \"B\"` with B = {:?}: {} (the same output printed by one program is 'expected')",
                    self.pending,
                    b,
                    first_diff(&merged2, &merged1)
                ),
            });
        }
        let _ = self.load_only;
        if let Some(ft) = w.fatal.as_ref().or(f.fatal.as_ref()) {
            fail = Some(fatal_violation("C11", ft));
        }
        v.violation = fail;
        v.stats.merge(&w.stats);
        v.instr = w.total_instr + f.total_instr;
        v.sim_us = w.sim_us;
        v.executions = 2;
        v.fingerprint = w.log_hash;
        v.nontrivial = true;
        v
    }
    fn shrink(&self) -> Vec<Box<dyn Case>> {
        let mut out: Vec<Box<dyn Case>> = vec![];
        if self.sched_variant != 1 {
            out.push(Box::new(C11ChainCase {
                sched_variant: 1,
                ..self.clone()
            }));
        }
        out
    }
    fn describe(&self) -> Json {
        obj()
            .set("kind", "C11 chained RUN \"file\" with the cursor mid-line vs the same output from one program")
            .set("program", format!("10 PRINT \"{}\";:RUN \"B\"", self.pending))
            .set("file_B", vec![format!("10 {}", self.first_line), "20 PRINT \"|\";POS(0)".to_string()])
            .set("quantum_schedule_variant", self.sched_variant)
            .build()
    }
}

impl Property for C11 {
    fn id(&self) -> &'static str {
        "C11"
    }
    fn generate(&self, rng: &mut Rng, tier: Tier) -> Box<dyn Case> {
        let mut cfg = GenCfg::swarm(rng);
        cfg.emph = Emph::Print;
        cfg.layout = true;
        // keyboard polls between print items (answered with no key) must not move the column
        cfg.inkey = rng.pct(40);
        cfg.strings = true;
        cfg.doubles = rng.pct(50);
        cfg.input = rng.pct(40);
        cfg.errors = rng.pct(30);
        cfg.size = *rng.pick(&[2usize, 4, 6, 10]);
        if tier == Tier::Thorough && rng.pct(35) {
            // the thorough tier also explores larger programs
            cfg.size *= 2;
        }
        if cfg.tron {
            cfg.stop = false;
            cfg.end_mid = false;
        }
        if rng.below(120) == 0 {
            let first_line = rng
                .pick(&[
                    "PRINT POS(0);TAB(10);\"X\",1",
                    "PRINT ,\"Z\"",
                    "PRINT TAB(5);\"T\";POS(0)",
                    "PRINT 1,2,3",
                    "PRINT SPC(2);POS(0),\"é\";POS(0)",
                    "PRINT TAB(-14);\"N\"",
                    "PRINT",
                ])
                .to_string();
            return Box::new(C11ChainCase {
                pending: rng.pick(&["ABC", "é日本", "0123456789ABCD", "x", "0123456789ABC", "0123456789ABCDE", ""]).to_string(),
                first_line,
                load_only: false,
                sched_variant: rng.usize(7),
                entropy: rng.next_u64(),
            });
        }
        if rng.below(200) == 0 {
            // Ctrl-C at every instruction of a PRINT-heavy program, most of them with the cursor
            // mid-line: the ?BREAK report must come on a line of its own (the interpreter's column
            // belief agrees with the terminal), and after CONT the remaining layout is unchanged
            // where the break came at column 0
            cfg.tron = false;
            return crate::props::c13::interrupt_case(rng, cfg, "C11", 300);
        }
        let mut prog = gen_program(rng, cfg.clone());
        // a few hand-shaped print lines inside the program as well
        if !prog.lines.is_empty() && !cfg.tron {
            let k = rng.below(3);
            for _ in 0..k {
                let at = rng.usize(prog.lines.len());
                let extra = print_line(rng);
                if !matches!(prog.lines[at].stmts.last(), Some(Stmt::If { .. }))
                    && !prog.lines[at].stmts.iter().any(|s| matches!(s, Stmt::Rem(..) | Stmt::Data(_)))
                {
                    let pos = rng.usize(prog.lines[at].stmts.len() + 1);
                    // never behind a GOTO/RETURN/END where it would be dead but harmless; any position is legal
                    prog.lines[at].stmts.splice(pos..pos, extra);
                }
            }
        }
        // STOP with the cursor mid-line, column-sensitive items right behind it: after CONT the cursor
        // is where the break report left it (column 0), not where the program had it
        let mut planted_stop = false;
        if !prog.lines.is_empty() && !cfg.tron && rng.pct(15) {
            let at = rng.usize(prog.lines.len());
            if !matches!(prog.lines[at].stmts.last(), Some(Stmt::If { .. }))
                && !prog.lines[at].stmts.iter().any(|s| matches!(s, Stmt::Rem(..) | Stmt::Data(_)))
            {
                let mut extra = vec![
                    Stmt::Print {
                        q: false,
                        items: vec![PItem::E(Expr::Str("MID".repeat(1 + rng.usize(4)))), PItem::Semi],
                    },
                    Stmt::Stop,
                    Stmt::Print {
                        q: false,
                        items: vec![
                            PItem::E(Expr::Call(Builtin::Pos, vec![Expr::Int(0)])),
                            PItem::Semi,
                            PItem::E(Expr::Call(Builtin::Tab, vec![Expr::Int(10)])),
                            PItem::Semi,
                            PItem::E(Expr::Str("|".into())),
                            PItem::Comma,
                            PItem::E(Expr::Str("|".into())),
                        ],
                    },
                ];
                planted_stop = true;
                extra.extend(print_line(rng));
                let pos = rng.usize(prog.lines[at].stmts.len() + 1);
                prog.lines[at].stmts.splice(pos..pos, extra);
            }
        }
        let mut case = base_case(rng, prog, "C11");
        if rng.pct(25) {
            case.session.push(Step::Direct(print_line(rng)));
        }
        case.session.push(Step::Direct(vec![Stmt::Run(None)]));
        let steps = rng.below(6) as usize + if planted_stop { 2 } else { 0 };
        let tron = cfg.tron;
        grow(rng, &mut case, steps, |rng, _case, last, _i| {
            if matches!(last, Some(Ended::Break)) && !tron && (planted_stop || rng.pct(50)) {
                return Some(Step::Direct(vec![Stmt::Cont]));
            }
            Some(match rng.below(10) {
                0..=3 => Step::Direct(print_line(rng)),
                4 => {
                    // PRINT "A";:LIST:PRINT POS(0)  - the cursor is at column 0 after a listed line
                    let mut l = vec![Stmt::Print {
                        q: false,
                        items: vec![PItem::E(Expr::Str("AB".into())), PItem::Semi],
                    }];
                    // ... and stays where it is when the range holds no line
                    l.push(match rng.below(4) {
                        0 => Stmt::ListCmd(Some(Target::Abs(65500)), Some(Target::Abs(65529))),
                        1 => Stmt::ListCmd(Some(Target::Abs(65529)), None),
                        _ => Stmt::ListCmd(None, None),
                    });
                    l.extend(print_line(rng));
                    Step::Direct(l)
                }
                5 => {
                    let mut l = print_line(rng);
                    l.extend(print_line(rng));
                    Step::Direct(l)
                }
                6..=7 => {
                    if matches!(last, Some(Ended::Break)) && !tron {
                        Step::Direct(vec![Stmt::Cont])
                    } else {
                        Step::Direct(print_line(rng))
                    }
                }
                _ => Step::Direct(vec![Stmt::Run(None)]),
            })
        });
        Box::new(case)
    }
    fn budget(&self, tier: Tier) -> Budget {
        match tier {
            Tier::Quick => Budget {
                runs: 300_000,
                watchdog_s: 60,
            },
            Tier::Thorough => Budget {
                runs: 10_000_000,
                watchdog_s: 60,
            },
        }
    }
    fn rule(&self) -> &'static str {
        "one evaluation = a generated program with over-sampled PRINT statements (strings incl. multi-byte and embedded line feeds, Integers, Singles, Doubles, TAB(n) around column and zone boundaries and +-255, SPC, POS(0), ',' ';' juxtaposition, trailing separators) interleaved with TRON, INPUT with and without prompt, planted runtime errors and STOP with the cursor mid-line, plus a session of direct PRINT lines, LIST between prints, CONT; RefBASIC lays the output out from the terminal's true cursor column and the full screen transcript of every typed line must be identical; distinct = distinct API/event log fingerprint"
    }
    fn assumptions(&self) -> Vec<&'static str> {
        vec![
            "number formatting is judged for the generated values only (small Integers, Singles and Doubles that are exact binary fractions, printed without exponent); the for-all-floats clause of the property is a pure function and is not claimed",
            "TAB beyond +-255 and values needing exponent notation discard the case",
            "the true cursor column is computed by the simulated terminal: +1 per printed character, 0 after a line feed, after the echo of a typed line or reply, and after every listed line or error report (which the UI ends with a line feed)",
        ]
    }
    fn required_probes(&self) -> Vec<&'static str> {
        vec!["c01.lines_compared", "reach.INPUT", "reach.TRON", "reach.STOP"]
    }
}

// ---------------------------------------------------------------------------
// C17

pub struct C17;

impl Property for C17 {
    fn id(&self) -> &'static str {
        "C17"
    }
    fn generate(&self, rng: &mut Rng, tier: Tier) -> Box<dyn Case> {
        let mut cfg = GenCfg::swarm(rng);
        cfg.emph = Emph::Input;
        cfg.input = true;
        cfg.tron = false;
        cfg.arrays = rng.pct(70);
        cfg.strings = rng.pct(85);
        cfg.doubles = rng.pct(40);
        cfg.size = *rng.pick(&[2usize, 3, 5, 8]);
        if tier == Tier::Thorough && rng.pct(35) {
            // the thorough tier also explores larger programs
            cfg.size *= 2;
        }
        if rng.below(200) == 0 {
            // Ctrl-C in every protocol state of INPUT (waiting, after REDO, between the reply and its
            // assignments) and at every other instruction, then CONT
            return crate::props::c13::interrupt_case(rng, cfg, "C17", 300);
        }
        let mut prog = gen_program(rng, cfg.clone());
        if rng.pct(12) {
            // targets whose type comes from DEFtype, with names that end in a digit
            let ty = *rng.pick(&[Ty::Str, Ty::Str, Ty::Int, Ty::Dbl, Ty::Sng]);
            let mut targets = vec![LVal::scalar("T1")];
            if rng.pct(60) {
                targets.push(LVal::arr("T2", vec![Expr::Int(rng.range(0, 3) as i16)]));
            }
            if rng.pct(40) {
                targets.insert(0, LVal::scalar("N%"));
            }
            let mut items = vec![];
            for t in &targets {
                items.push(PItem::E(Expr::Str("<".into())));
                items.push(PItem::Semi);
                items.push(PItem::E(Expr::L(Box::new(t.clone()))));
                items.push(PItem::Semi);
            }
            items.push(PItem::E(Expr::Str(">".into())));
            prog = Program {
                lines: vec![
                    Line {
                        num: 10,
                        stmts: vec![Stmt::DefType(ty, 'T', 'T')],
                    },
                    Line {
                        num: 20,
                        stmts: vec![Stmt::Input {
                            nocaps: rng.pct(30),
                            prompt: if rng.pct(50) { Some("V".into()) } else { None },
                            targets,
                        }],
                    },
                    Line {
                        num: 30,
                        stmts: vec![Stmt::Print { q: false, items }],
                    },
                ],
            };
        }
        let mut case = base_case(rng, prog, "C17");
        if rng.pct(25) {
            // INPUT in direct mode
            let mut sub = rng.fork();
            let mut g = crate::gen::Gen::new(&mut sub, cfg.clone());
            let st = g.input_stmt_public();
            case.session.push(Step::Direct(vec![
                st,
                Stmt::Print {
                    q: false,
                    items: vec![
                        PItem::E(Expr::var("N%")),
                        PItem::Semi,
                        PItem::E(Expr::var("A")),
                        PItem::Semi,
                        PItem::E(Expr::Str("<".into())),
                        PItem::Semi,
                        PItem::E(Expr::var("S$")),
                        PItem::Semi,
                        PItem::E(Expr::Str(">".into())),
                    ],
                },
            ]));
        }
        case.session.push(Step::Direct(vec![Stmt::Run(None)]));
        finish_session(rng, &mut case, &cfg);
        // read everything back after the run
        let probes = probe_lines(&case.prog);
        let _ = probes;
        Box::new(case)
    }
    fn budget(&self, tier: Tier) -> Budget {
        match tier {
            Tier::Quick => Budget {
                runs: 300_000,
                watchdog_s: 60,
            },
            Tier::Thorough => Budget {
                runs: 10_000_000,
                watchdog_s: 60,
            },
        }
    }
    fn rule(&self) -> &'static str {
        "one evaluation = a generated program with over-sampled INPUT statements (with / without prompt, leading-comma form, 1-5 targets of every type, array targets whose subscript is an earlier target of the same statement, inside loops, subroutines and IF branches, in direct mode, and into unsuffixed names ending in a digit whose type comes from DEFSTR/DEFINT/DEFDBL) answered by synthesised replies of three classes per field: clearly valid (decimal, sign, fraction, E/D exponent, & octal, &H hex, blanks around, empty = 0; strings bare, quoted, with commas inside quotes, padded), clearly invalid (letters, two numbers, out of Integer range, 256 characters) and structural (too few / too many fields); up to two bad replies precede an accepted one; the event sequence Input(prompt? , caps) {REDO, same Input}* and everything printed afterwards must equal RefBASIC's; distinct = distinct API/event log fingerprint"
    }
    fn assumptions(&self) -> Vec<&'static str> {
        vec![
            "grey-zone reply spellings (inf, nan, signed or over-long hex, trailing type sigils, a lone exponent letter, unbalanced quotes, exotic white space) are never generated; if one appears the case is discarded",
            "assignments made by the leading fields of a reply that is then rejected are not judged unless still observable after acceptance",
            "interrupts during the wait, after REDO and right after a reply are enumerated by C13",
            "stack residue of REDO cycles is C18's INPUT member",
        ]
    }
    fn required_probes(&self) -> Vec<&'static str> {
        vec!["reach.INPUT", "reach.REDO", "c01.lines_compared"]
    }
}

// ---------------------------------------------------------------------------
// C06

pub struct C06;

const SCALARS_SUFFIXED: &[&str] = &["A%", "A!", "A#", "A$", "Q%", "Q$", "X1%", "X1$"];
const SCALARS_PLAIN: &[&str] = &["B", "F", "FA", "X", "X2", "X22", "AB", "ZB", "BB", "XX", "BOB"];
const ARRAYS: &[&str] = &["A%", "A!", "A#", "A$", "B", "X", "X2", "AB", "BB"];

fn c06_value(rng: &mut Rng) -> Expr {
    match rng.below(12) {
        0 => Expr::Int(0),
        1 => Expr::int(rng.range(-9, 99) as i32),
        2 => Expr::Int(32767),
        3 => Expr::Sng(1.5),
        4 => Expr::Neg(Box::new(Expr::Sng(2.25))),
        5 => Expr::Sng(40000.0),
        6 => Expr::Dbl(3.125),
        7 => Expr::Str("".into()),
        8 => Expr::Str("hi".into()),
        9 => Expr::Str("é日".into()),
        10 => Expr::bin(
            BinOp::Add,
            Expr::Call(Builtin::StringS, vec![Expr::Int(200), Expr::Str("x".into())]),
            Expr::Call(Builtin::StringS, vec![Expr::Int(rng.range(50, 60) as i16), Expr::Str("y".into())]),
        ),
        _ => Expr::bin(BinOp::Mul, Expr::Int(300), Expr::Int(rng.range(1, 200) as i16)),
    }
}

fn c06_subscript(rng: &mut Rng, bound: i16) -> Expr {
    match rng.below(14) {
        0 => Expr::Int(0),
        1 => Expr::Int(1),
        2 => Expr::Int((bound - 1).max(0)),
        3 => Expr::Int(bound),
        4 => Expr::Int(bound.saturating_add(1)),
        5 => Expr::Int(10),
        6 => Expr::Int(11),
        7 => Expr::Int(32767),
        8 => Expr::int(-1),
        9 => Expr::Sng(1.5),
        10 => Expr::Str("x".into()),
        _ => Expr::Int(rng.range(0, bound.max(1) as i64) as i16),
    }
}

struct C06Gen {
    plain: bool,
    dims: std::collections::BTreeMap<String, Vec<i16>>,
}

impl C06Gen {
    fn scalar(&self, rng: &mut Rng) -> String {
        if self.plain {
            rng.pick::<&str>(SCALARS_PLAIN).to_string()
        } else {
            rng.pick::<&str>(SCALARS_SUFFIXED).to_string()
        }
    }
    fn array(&self, rng: &mut Rng) -> String {
        // array names follow the same spelling discipline as scalars
        loop {
            let a = *rng.pick::<&str>(ARRAYS);
            let suffixed = a.ends_with(|c| "%!#$".contains(c));
            if suffixed != self.plain {
                return a.to_string();
            }
        }
    }
    fn element(&mut self, rng: &mut Rng) -> LVal {
        let name = self.array(rng);
        let dims = self.dims.get(&name).cloned();
        let n = match &dims {
            Some(d) if rng.pct(85) => d.len(),
            _ => 1 + rng.usize(3),
        };
        let idx: Vec<Expr> = (0..n)
            .map(|k| {
                let b = dims.as_ref().and_then(|d| d.get(k).copied()).unwrap_or(10);
                c06_subscript(rng, b)
            })
            .collect();
        LVal::arr(&name, idx)
    }
    fn target(&mut self, rng: &mut Rng) -> LVal {
        if rng.pct(45) {
            self.element(rng)
        } else {
            LVal::scalar(&self.scalar(rng))
        }
    }
    fn probe(&mut self, rng: &mut Rng, touched: &[LVal]) -> Vec<Stmt> {
        let mut items = vec![];
        let mut names: Vec<LVal> = touched.to_vec();
        for _ in 0..3 {
            names.push(LVal::scalar(&self.scalar(rng)));
        }
        // elements with in-range literal subscripts of arrays that exist, so that the probe itself
        // does not dimension anything new by accident... it may: the model does the same
        for l in names {
            items.push(PItem::E(Expr::Str("<".into())));
            items.push(PItem::Semi);
            items.push(PItem::E(Expr::L(Box::new(l))));
            items.push(PItem::Semi);
        }
        items.push(PItem::E(Expr::Str(">".into())));
        vec![Stmt::Print { q: false, items }]
    }
}

/// A mixed-type SWAP (or another failing store) inside a stored program, then CONT: the rejected
/// statement must leave its operands unchanged for good, also when the program is continued.
#[derive(Clone)]
struct C06ContCase {
    a: (String, String),
    b: (String, String),
    stmt: String,
    /// the statement is a mixed-type SWAP (both operands must stay unchanged after CONT as well)
    swap: bool,
    in_sub: bool,
    sched_variant: usize,
    entropy: u64,
}

impl C06ContCase {
    fn program(&self) -> Vec<String> {
        let mut p = vec![format!("10 {}={}:{}={}", self.a.0, self.a.1, self.b.0, self.b.1)];
        if self.in_sub {
            p.push("20 FOR I9%=1 TO 1:GOSUB 100:NEXT".into());
            p.push("30 END".into());
            p.push(format!("100 {}", self.stmt));
            p.push("110 RETURN".into());
        } else {
            p.push(format!("20 {}", self.stmt));
            p.push("30 END".into());
        }
        p
    }
}

impl Case for C06ContCase {
    fn execute(&self) -> Verdict {
        let mut v = Verdict::default();
        let mut w = World::booted(sched_of(self.sched_variant, self.entropy), self.entropy, false);
        enter_program(&mut w, &self.program());
        let probe = format!("PRINT \"<\";{};\"<\";{};\">\"", self.a.0, self.b.0);
        // what the two operands print as when nothing has touched them
        let mut f = World::booted(Sched::fixed(DEFAULT_Q), self.entropy, false);
        f.line(&format!("{}={}:{}={}", self.a.0, self.a.1, self.b.0, self.b.1), &LineIo::budget(1000));
        let o = f.line(&probe, &LineIo::budget(1000));
        let want = tokens(&f.events[o.ev_start..o.ev_end]);
        let o = w.line("RUN", &LineIo::budget(5000));
        let failed = has_error_other_than_break(&w.events[o.ev_start..o.ev_end]);
        let o = w.line(&probe, &LineIo::budget(1000));
        let p1 = tokens(&w.events[o.ev_start..o.ev_end]);
        let mut fail: Option<Violation> = None;
        if !failed {
            v.discarded = Some("the statement did not fail".into());
        } else if p1 != want {
            fail = Some(Violation {
                key: "C06:failed-statement-changed-operands".into(),
                detail: format!("{:?} failed, yet {} (untouched operands are 'expected')", self.stmt, first_diff(&want, &p1)),
            });
        } else {
            w.stats.bump("c06.failed_statement_in_program");
            w.line("CONT", &LineIo::budget(5000));
            let o = w.line(&probe, &LineIo::budget(1000));
            let p2 = tokens(&w.events[o.ev_start..o.ev_end]);
            w.stats.bump("c06.cont_after_failed_statement");
            if self.swap && p2 != want && w.fatal.is_none() {
                fail = Some(Violation {
                    key: "C06:rejected-swap-completed-by-cont".into(),
                    detail: format!("{:?} was rejected with an error; after CONT {} (untouched operands are 'expected')", self.stmt, first_diff(&want, &p2)),
                });
            }
        }
        if let Some(ft) = &w.fatal {
            fail = Some(fatal_violation("C06", ft));
        }
        v.violation = fail;
        v.stats.merge(&w.stats);
        v.instr = w.total_instr;
        v.sim_us = w.sim_us;
        v.executions = 2;
        v.fingerprint = w.log_hash;
        v.nontrivial = true;
        v
    }
    fn shrink(&self) -> Vec<Box<dyn Case>> {
        let mut out: Vec<Box<dyn Case>> = vec![];
        if self.in_sub {
            out.push(Box::new(C06ContCase {
                in_sub: false,
                ..self.clone()
            }));
        }
        if self.sched_variant != 0 {
            out.push(Box::new(C06ContCase {
                sched_variant: 0,
                ..self.clone()
            }));
        }
        out
    }
    fn describe(&self) -> Json {
        obj()
            .set("kind", "C06 failing store inside a stored program: RUN, probe, CONT, probe; a rejected SWAP must leave both operands unchanged for good")
            .set("program", program_json(&self.program()))
            .set("session", vec!["RUN".to_string(), "PRINT operands".to_string(), "CONT".to_string(), "PRINT operands".to_string()])
            .set("quantum_schedule_variant", self.sched_variant)
            .build()
    }
}

impl Property for C06 {
    fn id(&self) -> &'static str {
        "C06"
    }
    fn generate(&self, rng: &mut Rng, _tier: Tier) -> Box<dyn Case> {
        if rng.pct(6) {
            // typed operand pairs: (name, initial value)
            let pool: &[(&str, &str)] = &[("A%", "127"), ("B#", "2.5#"), ("C!", "1.5"), ("D$", "\"hi\""), ("E", "3.25"), ("AR%(2)", "7"), ("SA$(1)", "\"é\""), ("DA#(0,1)", "9.5#")];
            let a = *rng.pick(pool);
            let mut b = *rng.pick(pool);
            let ty = |n: &str| n.chars().find(|c| "%#!$".contains(*c)).unwrap_or('!');
            let mut guard = 0;
            while (ty(b.0) == ty(a.0) || b.0 == a.0) && guard < 20 {
                b = *rng.pick(pool);
                guard += 1;
            }
            let swap = rng.pct(70);
            let stmt = if swap {
                format!("SWAP {},{}", a.0, b.0)
            } else {
                // another failing store into the first operand
                match ty(a.0) {
                    '%' => format!("{}=40000", a.0),
                    '$' => format!("{}=STRING$(200,\"x\")+STRING$(200,\"y\")", a.0),
                    _ => format!("{}=\"text\"", a.0),
                }
            };
            return Box::new(C06ContCase {
                a: (a.0.to_string(), a.1.to_string()),
                b: (b.0.to_string(), b.1.to_string()),
                stmt,
                swap,
                in_sub: rng.pct(40),
                sched_variant: rng.usize(7),
                entropy: rng.next_u64(),
            });
        }
        let mut g = C06Gen {
            plain: rng.pct(50),
            dims: Default::default(),
        };
        let mut case = base_case(rng, Program::default(), "C06");
        case.hold_snapshot = false;
        let n = 3 + rng.below(25) as usize;
        let deftype_ok = g.plain && rng.pct(40);
        for _ in 0..n {
            let mut touched: Vec<LVal> = vec![];
            let line: Vec<Stmt> = match rng.below(100) {
                0..=34 => {
                    let t = g.target(rng);
                    touched.push(t.clone());
                    vec![Stmt::Let {
                        kw: rng.pct(10),
                        target: t,
                        expr: c06_value(rng),
                    }]
                }
                35..=46 => {
                    let name = g.array(rng);
                    let nd = 1 + rng.usize(3);
                    let dims: Vec<i16> = (0..nd).map(|_| *rng.pick(&[0i16, 1, 2, 5, 10, 11, 100])).collect();
                    let mut bounds: Vec<Expr> = dims.iter().map(|d| Expr::Int(*d)).collect();
                    if !g.dims.contains_key(&name) && rng.pct(15) {
                        // a DIM that fails on one of its bounds must leave nothing behind: the array
                        // is still undimensioned afterwards (auto-dimension 10, a later DIM is legal)
                        let k = rng.usize(bounds.len());
                        bounds[k] = match rng.below(3) {
                            0 => Expr::Sng(40000.0),
                            1 => Expr::int(-1),
                            _ => Expr::Str("x".into()),
                        };
                        touched.push(LVal::arr(&name, (0..nd).map(|_| Expr::Int(1)).collect()));
                    } else if !g.dims.contains_key(&name) {
                        g.dims.insert(name.clone(), dims.clone());
                    }
                    vec![Stmt::Dim(vec![LVal::arr(&name, bounds)])]
                }
                47..=52 => {
                    let name = g.array(rng);
                    g.dims.remove(&name);
                    vec![Stmt::Erase(vec![Var::new(&name)])]
                }
                53..=62 => {
                    let a = g.target(rng);
                    let b = g.target(rng);
                    touched.push(a.clone());
                    touched.push(b.clone());
                    vec![Stmt::Swap(a, b)]
                }
                63..=68 if deftype_ok => {
                    let ty = *rng.pick(&[Ty::Int, Ty::Sng, Ty::Dbl, Ty::Str]);
                    let (a, b) = *rng.pick(&[('A', 'A'), ('B', 'B'), ('X', 'Z'), ('A', 'F'), ('F', 'F'), ('A', 'Z')]);
                    vec![Stmt::DefType(ty, a, b)]
                }
                69..=74 => {
                    let v = g.scalar(rng);
                    if v.ends_with('$') {
                        vec![Stmt::Clear]
                    } else {
                        touched.push(LVal::scalar(&v));
                        vec![
                            Stmt::For {
                                var: Var::new(&v),
                                from: Expr::Int(1),
                                to: Expr::Int(rng.range(1, 3) as i16),
                                step: None,
                            },
                            Stmt::Next(vec![]),
                        ]
                    }
                }
                75..=82 => {
                    let n = 1 + rng.usize(3);
                    let ts: Vec<LVal> = (0..n).map(|_| g.target(rng)).collect();
                    touched.extend(ts.iter().cloned());
                    vec![Stmt::Input {
                        nocaps: false,
                        prompt: None,
                        targets: ts,
                    }]
                }
                83..=86 => vec![Stmt::Clear],
                87..=89 => vec![Stmt::Run(None)],
                _ => {
                    let t = g.target(rng);
                    touched.push(t.clone());
                    vec![Stmt::MidSet {
                        target: t,
                        pos: Expr::Int(rng.range(1, 3) as i16),
                        len: None,
                        expr: Expr::Str("Z".into()),
                    }]
                }
            };
            if matches!(line[0], Stmt::Clear | Stmt::Run(_)) {
                g.dims.clear();
            }
            case.session.push(Step::Direct(line));
            let p = g.probe(rng, &touched);
            case.session.push(Step::Direct(p));
        }
        let (_res, r) = case.reference(Some(rng.fork()));
        case.replies = r.used_replies.clone();
        Box::new(case)
    }
    fn budget(&self, tier: Tier) -> Budget {
        match tier {
            Tier::Quick => Budget {
                runs: 250_000,
                watchdog_s: 60,
            },
            Tier::Thorough => Budget {
                runs: 8_000_000,
                watchdog_s: 60,
            },
        }
    }
    fn rule(&self) -> &'static str {
        "one evaluation = a direct-mode session of 3-27 store operations over a universe of names chosen to collide if keys were built carelessly (A% A! A# A$ / B F FA X X2 X22 AB BB XX BOB, arrays of 1-3 dimensions, subscripts from {0, 1, bound-1, bound, bound+1, 10, 11, 32767, -1, 1.5, \"x\"}): typed LET incl. failing ones (OVERFLOW, TYPE MISMATCH, STRING TOO LONG, SUBSCRIPT OUT OF RANGE), DIM / second DIM / DIM failing on a bound / ERASE / implicit dimensioning, DEFINT/SNG/DBL/STR on ranges, SWAP same-typed and mixed, FOR over typed variables, INPUT into scalars and elements, MID$ assignment, CLEAR, RUN; after EVERY operation a probe line prints the touched names and a sample of others and is compared with RefBASIC's typed map; (6%) a mixed-type SWAP or another failing store inside a stored program (top level or in a subroutine called from a FOR), RUN, probe of both operands, CONT, probe again: a rejected SWAP must leave both operands unchanged for good; distinct = distinct API/event log fingerprint"
    }
    fn assumptions(&self) -> Vec<&'static str> {
        vec![
            "within one evaluation a base name is spelled either always without or always with a type suffix: whether A and A! (or A and A% under DEFINT) are the same variable is not settled by the manual",
            "DEFtype issued while unsuffixed variables of another type exist outside the letter range discards the case (which variables are dropped is a grey zone)",
            "the combinatorial part of the property's quantifier (all spellings) is reached only as far as the seeded generator goes; interrupts between the opcodes of SWAP and MID$ assignment are enumerated by C13; pool exhaustion is C18",
        ]
    }
    fn required_probes(&self) -> Vec<&'static str> {
        vec!["reach.DIM", "reach.SWAP", "reach.INPUT", "reach.MIDSET", "c01.lines_compared", "c06.cont_after_failed_statement"]
    }
}
