//! RefBASIC: a small executable reference model of the documented semantics,
//! interpreting the generator's AST directly. It shares no code with /repo and
//! never parses program text. Rules and their sources: DESIGN.md appendix B.
//!
//! Anything the manual and the property statements leave open sets `grey`
//! (the case is then discarded and counted, never judged).

use crate::ast::*;
use std::collections::{BTreeMap, VecDeque};

#[derive(Clone, Debug, PartialEq)]
pub enum V {
    I(i16),
    S(f32),
    D(f64),
    T(String),
}

impl V {
    pub fn ty(&self) -> Ty {
        match self {
            V::I(_) => Ty::Int,
            V::S(_) => Ty::Sng,
            V::D(_) => Ty::Dbl,
            V::T(_) => Ty::Str,
        }
    }
    fn as_f64(&self) -> Option<f64> {
        match self {
            V::I(n) => Some(*n as f64),
            V::S(n) => Some(*n as f64),
            V::D(n) => Some(*n),
            V::T(_) => None,
        }
    }
}

pub type RErr = &'static str;

#[derive(Clone, Copy, Debug, PartialEq, Eq)]
enum Place {
    Prog(usize),
    Direct,
}

#[derive(Clone, Copy, Debug, PartialEq, Eq)]
struct Pos {
    place: Place,
    idx: usize,
}

#[derive(Clone, Debug)]
enum Frame {
    For {
        var: String,
        to: V,
        step: V,
        resume: Pos,
        /// which typed line was current when the frame was pushed (resuming into a direct line
        /// that has been replaced since is not settled)
        serial: u64,
    },
    Gosub {
        resume: Pos,
        serial: u64,
    },
}

#[derive(Clone, Debug)]
enum Flat {
    S(Stmt),
    IfNot(Expr, usize),
    Eol,
}

fn flatten(stmts: &[Stmt], out: &mut Vec<Flat>) {
    for s in stmts {
        match s {
            Stmt::If {
                cond, then, els, ..
            } => {
                let at = out.len();
                out.push(Flat::IfNot(cond.clone(), usize::MAX));
                match then {
                    Branch::Line(t) => out.push(Flat::S(Stmt::Goto(t.clone()))),
                    Branch::Stmts(v) => flatten(v, out),
                }
                if els.is_some() {
                    out.push(Flat::Eol);
                }
                let else_at = out.len();
                out[at] = Flat::IfNot(cond.clone(), else_at);
                if let Some(e) = els {
                    match e {
                        Branch::Line(t) => out.push(Flat::S(Stmt::Goto(t.clone()))),
                        Branch::Stmts(v) => flatten(v, out),
                    }
                }
                // IF extends to the end of the line
                out.push(Flat::Eol);
            }
            other => out.push(Flat::S(other.clone())),
        }
    }
}

#[derive(Clone, Debug, PartialEq)]
pub enum Ended {
    /// back at the prompt after normal completion / END
    Ready,
    /// stopped by STOP (?BREAK IN n)
    Break,
    /// runtime error
    Error,
    /// INPUT request with no reply left (operator will press Ctrl-C): not judged further
    NeedInput,
    /// step budget exceeded
    Budget,
}

pub struct Ref {
    pub prog: Program,
    flat: Vec<Vec<Flat>>,
    direct: Vec<Flat>,
    pub vars: BTreeMap<String, V>,
    pub dims: BTreeMap<String, Vec<i16>>,
    pub deftype: [Ty; 26],
    fns: BTreeMap<String, (Vec<Var>, Expr, Option<usize>)>,
    cur_line: Option<usize>,
    stack: Vec<Frame>,
    data: Vec<(usize, V)>,
    pub data_ptr: usize,
    cont: Option<Pos>,
    pub tron: bool,
    last_traced: Option<usize>,
    pub col: usize,
    pub out: String,
    pub replies: VecDeque<String>,
    pub steps: u64,
    pub max_steps: u64,
    pub grey: Option<String>,
    /// number of REDO cycles seen, nesting probes etc.
    pub redo_count: u64,
    pub max_depth: usize,
    fn_depth: usize,
    /// parameter frames of active user-function calls
    locals: Vec<BTreeMap<String, V>>,
    /// statements executed per kind (reach measure)
    pub kinds: BTreeMap<&'static str, u64>,
    /// when no reply is queued, synthesise one (workload generation) and record it
    pub auto_reply: Option<crate::prng::Rng>,
    pub used_replies: Vec<String>,
    bad_streak: u32,
    /// the last stop was a runtime error: a following CONT is a grey zone
    cont_after_error: bool,
    /// the last END was followed only by lines without code: whether CONT can go on is not settled
    cont_end_grey: bool,
    /// number of direct lines typed so far
    direct_serial: u64,
    residue_grey: bool,
    /// the DATA position after an edit is not settled by the manual
    data_unknown: bool,
}

pub fn stmt_kind(s: &Stmt) -> &'static str {
    match s {
        Stmt::Let { .. } => "LET",
        Stmt::Print { .. } => "PRINT",
        Stmt::If { .. } => "IF",
        Stmt::Goto(_) => "GOTO",
        Stmt::Gosub(_) => "GOSUB",
        Stmt::Return => "RETURN",
        Stmt::OnGoto(..) => "ONGOTO",
        Stmt::OnGosub(..) => "ONGOSUB",
        Stmt::For { .. } => "FOR",
        Stmt::Next(_) => "NEXT",
        Stmt::While(_) => "WHILE",
        Stmt::Wend => "WEND",
        Stmt::End => "END",
        Stmt::Stop => "STOP",
        Stmt::Input { .. } => "INPUT",
        Stmt::Read(_) => "READ",
        Stmt::Data(_) => "DATA",
        Stmt::Restore(_) => "RESTORE",
        Stmt::Dim(_) => "DIM",
        Stmt::Erase(_) => "ERASE",
        Stmt::DefFn { .. } => "DEF",
        Stmt::DefType(..) => "DEFTYPE",
        Stmt::Swap(..) => "SWAP",
        Stmt::MidSet { .. } => "MIDSET",
        Stmt::Tron => "TRON",
        Stmt::Troff => "TROFF",
        Stmt::Rem(..) => "REM",
        Stmt::Clear => "CLEAR",
        Stmt::Cls => "CLS",
        Stmt::Run(_) => "RUN",
        Stmt::Cont => "CONT",
        Stmt::ListCmd(..) => "LIST",
        Stmt::DeleteCmd(..) => "DELETE",
        Stmt::FromCmd(..) => "RANGEFROM",
        Stmt::Raw(_) => "RAW",
    }
}

pub fn fmt_num(v: &V) -> Option<String> {
    let s = match v {
        V::I(n) => format!("{}", n),
        V::S(n) => {
            if !n.is_finite() {
                return None;
            }
            let s = format!("{}", n);
            if s.chars().filter(|c| c.is_ascii_digit()).count() > 9 {
                return None;
            }
            s
        }
        V::D(n) => {
            if !n.is_finite() {
                return None;
            }
            let s = format!("{}", n);
            if s.chars().filter(|c| c.is_ascii_digit()).count() > 17 {
                return None;
            }
            s
        }
        V::T(_) => return None,
    };
    if s.starts_with('-') {
        Some(s)
    } else {
        Some(format!(" {}", s))
    }
}

enum Flow {
    Next,
    Jump(Pos),
    Stop(Ended),
}

impl Ref {
    pub fn new(prog: &Program) -> Ref {
        let mut r = Ref {
            prog: Program::default(),
            flat: vec![],
            direct: vec![],
            vars: BTreeMap::new(),
            dims: BTreeMap::new(),
            deftype: [Ty::Sng; 26],
            fns: BTreeMap::new(),
            cur_line: None,
            stack: vec![],
            data: vec![],
            data_ptr: 0,
            cont: None,
            tron: false,
            last_traced: None,
            col: 0,
            out: String::new(),
            replies: VecDeque::new(),
            steps: 0,
            max_steps: 50_000,
            grey: None,
            redo_count: 0,
            max_depth: 0,
            fn_depth: 0,
            locals: vec![],
            kinds: BTreeMap::new(),
            auto_reply: None,
            used_replies: vec![],
            bad_streak: 0,
            cont_after_error: false,
            cont_end_grey: false,
            direct_serial: 0,
            residue_grey: false,
            data_unknown: false,
        };
        r.set_program(prog);
        r
    }

    /// Replace the stored program (an edit): compiled form rebuilt, continuation cancelled.
    pub fn set_program(&mut self, prog: &Program) {
        self.prog = prog.clone();
        self.flat = prog
            .lines
            .iter()
            .map(|l| {
                let mut v = vec![];
                flatten(&l.stmts, &mut v);
                v
            })
            .collect();
        self.data.clear();
        for (i, l) in prog.lines.iter().enumerate() {
            self.collect_data(i, &l.stmts);
        }
        self.cont = None;
        self.cont_after_error = false;
        self.cont_end_grey = false;
    }

    /// An edit typed at the prompt: new program text, pending execution state discarded,
    /// DATA position unknown until RUN / CLEAR / RESTORE.
    pub fn edit_program(&mut self, prog: &Program) {
        if *prog == self.prog {
            // nothing is typed for an edit that changes nothing
            return;
        }
        let before: Vec<V> = self.data.iter().map(|(_, v)| v.clone()).collect();
        self.set_program(prog);
        self.stack.clear();
        // as on a fresh interpreter fed the listing: functions exist again once their DEF executes
        self.fns.clear();
        // an edit that leaves the sequence of DATA constants as it was leaves the position alone;
        // otherwise the position is unknown until RUN / CLEAR / RESTORE
        let after: Vec<V> = self.data.iter().map(|(_, v)| v.clone()).collect();
        if before != after && self.data_ptr != 0 {
            // (a position at the very start stays at the very start)
            self.data_unknown = true;
        }
    }

    /// NEW typed at the prompt: CLEAR plus an empty listing.
    pub fn new_program(&mut self) {
        self.edit_program(&Program::default());
        self.do_clear();
    }

    fn collect_data(&mut self, line: usize, stmts: &[Stmt]) {
        for s in stmts {
            match s {
                Stmt::Data(items) => {
                    for e in items {
                        let v = match e {
                            Expr::Int(n) => V::I(*n),
                            Expr::Sng(n) => V::S(*n),
                            Expr::Dbl(n) => V::D(*n),
                            Expr::Str(s) => V::T(s.clone()),
                            Expr::Neg(x) => match **x {
                                Expr::Int(n) => V::I(-n),
                                Expr::Sng(n) => V::S(-n),
                                Expr::Dbl(n) => V::D(-n),
                                _ => {
                                    self.grey = Some("DATA item not a literal".into());
                                    V::I(0)
                                }
                            },
                            _ => {
                                self.grey = Some("DATA item not a literal".into());
                                V::I(0)
                            }
                        };
                        self.data.push((line, v));
                    }
                }
                Stmt::If { then, els, .. } => {
                    if let Branch::Stmts(v) = then {
                        self.collect_data(line, v);
                    }
                    if let Some(Branch::Stmts(v)) = els {
                        self.collect_data(line, v);
                    }
                }
                _ => {}
            }
        }
    }

    fn grey(&mut self, why: &str) {
        if self.grey.is_none() {
            self.grey = Some(why.to_string());
        }
    }

    // ---- output ---------------------------------------------------------

    fn emit(&mut self, s: &str) {
        for ch in s.chars() {
            if ch == '\n' {
                self.col = 0;
            } else {
                self.col += 1;
            }
        }
        self.out.push_str(s);
    }

    fn fresh_line(&mut self) {
        if self.col > 0 {
            self.emit("\n");
        }
    }

    fn ready(&mut self) {
        self.fresh_line();
        self.emit("READY.\n");
    }

    // ---- variables --------------------------------------------------------

    pub fn type_of(&self, v: &Var) -> Ty {
        match v.sfx {
            Some('%') => Ty::Int,
            Some('!') => Ty::Sng,
            Some('#') => Ty::Dbl,
            Some('$') => Ty::Str,
            _ => {
                let c = v.first_letter() as usize;
                self.deftype[(c - 'A' as usize).min(25)]
            }
        }
    }

    pub fn default_of(ty: Ty) -> V {
        match ty {
            Ty::Int => V::I(0),
            Ty::Sng => V::S(0.0),
            Ty::Dbl => V::D(0.0),
            Ty::Str => V::T(String::new()),
        }
    }

    /// Conversion on assignment.
    pub fn convert(ty: Ty, v: V) -> Result<V, RErr> {
        match (ty, v) {
            (Ty::Str, V::T(s)) => {
                if s.chars().count() > 255 {
                    Err("STRING TOO LONG")
                } else {
                    Ok(V::T(s))
                }
            }
            (Ty::Str, _) => Err("TYPE MISMATCH"),
            (_, V::T(_)) => Err("TYPE MISMATCH"),
            (Ty::Int, V::I(n)) => Ok(V::I(n)),
            (Ty::Int, v) => {
                let f = v.as_f64().unwrap().floor();
                if (-32768.0..=32767.0).contains(&f) {
                    Ok(V::I(f as i16))
                } else {
                    Err("OVERFLOW")
                }
            }
            (Ty::Sng, V::I(n)) => Ok(V::S(n as f32)),
            (Ty::Sng, V::S(n)) => Ok(V::S(n)),
            (Ty::Sng, V::D(n)) => Ok(V::S(n as f32)),
            (Ty::Dbl, V::I(n)) => Ok(V::D(n as f64)),
            (Ty::Dbl, V::S(n)) => Ok(V::D(n as f64)),
            (Ty::Dbl, V::D(n)) => Ok(V::D(n)),
        }
    }

    fn subscripts(&mut self, l: &LVal) -> Result<Vec<i16>, RErr> {
        let mut v = vec![];
        for e in &l.idx {
            let x = self.eval(e)?;
            let n = match Ref::convert(Ty::Int, x)? {
                V::I(n) => n,
                _ => unreachable!(),
            };
            if n < 0 {
                return Err("SUBSCRIPT OUT OF RANGE");
            }
            v.push(n);
        }
        Ok(v)
    }

    fn elem_key(&mut self, l: &LVal, subs: &[i16]) -> Result<String, RErr> {
        let name = l.var.text();
        let dims = match self.dims.get(&name) {
            Some(d) => d.clone(),
            None => {
                let d = vec![10i16; subs.len()];
                self.dims.insert(name.clone(), d.clone());
                d
            }
        };
        if dims.len() != subs.len() {
            return Err("SUBSCRIPT OUT OF RANGE");
        }
        for (s, d) in subs.iter().zip(dims.iter()) {
            if s > d {
                return Err("SUBSCRIPT OUT OF RANGE");
            }
        }
        let parts: Vec<String> = subs.iter().map(|n| n.to_string()).collect();
        Ok(format!("{}({})", name, parts.join(",")))
    }

    fn read_lval(&mut self, l: &LVal) -> Result<V, RErr> {
        if l.idx.is_empty() {
            let name = l.var.text();
            if let Some(frame) = self.locals.last() {
                if let Some(v) = frame.get(&name) {
                    return Ok(v.clone());
                }
            }
            let ty = self.type_of(&l.var);
            return Ok(self.vars.get(&name).cloned().unwrap_or(Ref::default_of(ty)));
        }
        let subs = self.subscripts(l)?;
        let key = self.elem_key(l, &subs)?;
        let ty = self.type_of(&l.var);
        Ok(self.vars.get(&key).cloned().unwrap_or(Ref::default_of(ty)))
    }

    fn store_key(&mut self, key: String, ty: Ty, v: V) -> Result<(), RErr> {
        let v = Ref::convert(ty, v)?;
        if v == Ref::default_of(ty) || matches!(&v, V::S(x) if *x == 0.0) || matches!(&v, V::D(x) if *x == 0.0) {
            self.vars.remove(&key);
        } else {
            if !self.vars.contains_key(&key) && self.vars.len() >= 60_000 {
                self.grey("variable pool nearly full");
            }
            self.vars.insert(key, v);
        }
        Ok(())
    }

    /// Assignment with the subscripts already evaluated (or none).
    fn assign_to(&mut self, l: &LVal, subs: Option<Vec<i16>>, v: V) -> Result<(), RErr> {
        let ty = self.type_of(&l.var);
        match subs {
            None => self.store_key(l.var.text(), ty, v),
            Some(s) => {
                let key = self.elem_key(l, &s)?;
                self.store_key(key, ty, v)
            }
        }
    }

    /// `target = v`: subscripts are evaluated after the value (as the statement's
    /// right-hand side comes first; only observable when both sides fail).
    fn assign(&mut self, l: &LVal, v: V) -> Result<(), RErr> {
        if l.idx.is_empty() {
            self.assign_to(l, None, v)
        } else {
            let subs = self.subscripts(l)?;
            self.assign_to(l, Some(subs), v)
        }
    }

    // ---- expressions --------------------------------------------------------

    fn promote(a: &V, b: &V) -> Result<Ty, RErr> {
        match (a, b) {
            (V::T(_), _) | (_, V::T(_)) => Err("TYPE MISMATCH"),
            (V::D(_), _) | (_, V::D(_)) => Ok(Ty::Dbl),
            (V::S(_), _) | (_, V::S(_)) => Ok(Ty::Sng),
            _ => Ok(Ty::Int),
        }
    }

    fn to_i16(v: V) -> Result<i16, RErr> {
        match Ref::convert(Ty::Int, v)? {
            V::I(n) => Ok(n),
            _ => unreachable!(),
        }
    }

    fn truth(b: bool) -> V {
        V::I(if b { -1 } else { 0 })
    }

    fn arith(&mut self, op: BinOp, a: V, b: V) -> Result<V, RErr> {
        use BinOp::*;
        match op {
            Add => {
                if let (V::T(x), V::T(y)) = (&a, &b) {
                    return Ok(V::T(format!("{}{}", x, y)));
                }
                match Ref::promote(&a, &b)? {
                    Ty::Int => match (a, b) {
                        (V::I(x), V::I(y)) => x.checked_add(y).map(V::I).ok_or("OVERFLOW"),
                        _ => unreachable!(),
                    },
                    Ty::Sng => Ok(V::S(a.as_f64().unwrap() as f32 + b.as_f64().unwrap() as f32)),
                    _ => Ok(V::D(a.as_f64().unwrap() + b.as_f64().unwrap())),
                }
            }
            Sub => match Ref::promote(&a, &b)? {
                Ty::Int => match (a, b) {
                    (V::I(x), V::I(y)) => x.checked_sub(y).map(V::I).ok_or("OVERFLOW"),
                    _ => unreachable!(),
                },
                Ty::Sng => Ok(V::S(a.as_f64().unwrap() as f32 - b.as_f64().unwrap() as f32)),
                _ => Ok(V::D(a.as_f64().unwrap() - b.as_f64().unwrap())),
            },
            Mul => match Ref::promote(&a, &b)? {
                Ty::Int => match (a, b) {
                    (V::I(x), V::I(y)) => x.checked_mul(y).map(V::I).ok_or("OVERFLOW"),
                    _ => unreachable!(),
                },
                Ty::Sng => Ok(V::S(a.as_f64().unwrap() as f32 * b.as_f64().unwrap() as f32)),
                _ => Ok(V::D(a.as_f64().unwrap() * b.as_f64().unwrap())),
            },
            Div => match Ref::promote(&a, &b)? {
                Ty::Int | Ty::Sng => {
                    let r = a.as_f64().unwrap() as f32 / b.as_f64().unwrap() as f32;
                    if !r.is_finite() {
                        self.grey("division result not finite");
                    }
                    Ok(V::S(r))
                }
                _ => {
                    let r = a.as_f64().unwrap() / b.as_f64().unwrap();
                    if !r.is_finite() {
                        self.grey("division result not finite");
                    }
                    Ok(V::D(r))
                }
            },
            IDiv | Mod => {
                let x = Ref::to_i16(a)?;
                let y = Ref::to_i16(b)?;
                if y == 0 {
                    return Err("DIVISION BY ZERO");
                }
                if x == i16::MIN && y == -1 {
                    self.grey("-32768 \\ -1");
                    return Ok(V::I(0));
                }
                Ok(V::I(if op == IDiv { x / y } else { x % y }))
            }
            Pow => match (a, b) {
                (V::I(x), V::I(y)) if y >= 0 => x.checked_pow(y as u32).map(V::I).ok_or("OVERFLOW"),
                _ => {
                    self.grey("power outside Integer^non-negative Integer");
                    Ok(V::I(0))
                }
            },
            Eq | Ne | Lt | Le | Gt | Ge => {
                let ord = match (&a, &b) {
                    (V::T(x), V::T(y)) => x.cmp(y),
                    (V::T(_), _) | (_, V::T(_)) => return Err("TYPE MISMATCH"),
                    _ => {
                        let (x, y) = match Ref::promote(&a, &b)? {
                            Ty::Sng => (
                                a.as_f64().unwrap() as f32 as f64,
                                b.as_f64().unwrap() as f32 as f64,
                            ),
                            _ => (a.as_f64().unwrap(), b.as_f64().unwrap()),
                        };
                        if x != y && (x - y).abs() < 1e-4 {
                            // nearly equal floating values: the manual does not define a tolerance
                            self.grey("comparison of nearly equal floating values");
                        }
                        match x.partial_cmp(&y) {
                            Some(o) => o,
                            None => {
                                self.grey("NaN comparison");
                                std::cmp::Ordering::Equal
                            }
                        }
                    }
                };
                use std::cmp::Ordering::*;
                Ok(Ref::truth(match op {
                    Eq => ord == Equal,
                    Ne => ord != Equal,
                    Lt => ord == Less,
                    Le => ord != Greater,
                    Gt => ord == Greater,
                    _ => ord != Less,
                }))
            }
            And | Or | Xor | Imp | Eqv => {
                let x = Ref::to_i16(a)?;
                let y = Ref::to_i16(b)?;
                Ok(V::I(match op {
                    And => x & y,
                    Or => x | y,
                    Xor => x ^ y,
                    Imp => !x | y,
                    _ => !(x ^ y),
                }))
            }
        }
    }

    fn want_str(v: V) -> Result<String, RErr> {
        match v {
            V::T(s) => Ok(s),
            _ => Err("TYPE MISMATCH"),
        }
    }

    /// Non-negative count argument in 0..=max, else grey.
    fn count_arg(&mut self, v: V, max: i64) -> Result<usize, RErr> {
        if let V::T(_) = v {
            return Err("TYPE MISMATCH");
        }
        let f = v.as_f64().unwrap().floor();
        if f < 0.0 || f > max as f64 {
            self.grey("function argument outside the documented domain");
            return Ok(0);
        }
        Ok(f as usize)
    }

    fn call(&mut self, f: Builtin, args: &[Expr]) -> Result<V, RErr> {
        use Builtin::*;
        // TAB/SPC/POS read the cursor column at evaluation time
        let mut vals = vec![];
        for a in args {
            vals.push(self.eval(a)?);
        }
        let arity_ok = match f {
            Abs | Sgn | Int | Fix | Len | Chr | Asc | Spc | Tab | Str | Val | Cint | Csng | Cdbl => vals.len() == 1,
            Left | Right | StringS => vals.len() == 2,
            Mid => vals.len() == 2 || vals.len() == 3,
            Pos => vals.len() <= 1,
            Inkey | Rnd | Date | Time => true,
        };
        if !arity_ok {
            self.grey("builtin arity");
            return Ok(V::I(0));
        }
        let mut it = vals.into_iter();
        match f {
            Abs => match it.next().unwrap() {
                V::I(n) => {
                    if n == i16::MIN {
                        self.grey("ABS(-32768)");
                        Ok(V::I(0))
                    } else {
                        Ok(V::I(n.abs()))
                    }
                }
                V::S(n) => Ok(V::S(n.abs())),
                V::D(n) => Ok(V::D(n.abs())),
                V::T(_) => Err("TYPE MISMATCH"),
            },
            Sgn => {
                let v = it.next().unwrap();
                match v.as_f64() {
                    None => Err("TYPE MISMATCH"),
                    Some(x) => Ok(V::I(if x > 0.0 {
                        1
                    } else if x < 0.0 {
                        -1
                    } else {
                        0
                    })),
                }
            }
            Int => match it.next().unwrap() {
                V::I(n) => Ok(V::I(n)),
                V::S(n) => Ok(V::S(n.floor())),
                V::D(n) => Ok(V::D(n.floor())),
                V::T(_) => Err("TYPE MISMATCH"),
            },
            Fix => match it.next().unwrap() {
                V::I(n) => Ok(V::I(n)),
                V::S(n) => Ok(V::S(n.trunc())),
                V::D(n) => Ok(V::D(n.trunc())),
                V::T(_) => Err("TYPE MISMATCH"),
            },
            Cint => Ref::convert(Ty::Int, it.next().unwrap()),
            Csng => Ref::convert(Ty::Sng, it.next().unwrap()),
            Cdbl => Ref::convert(Ty::Dbl, it.next().unwrap()),
            Len => {
                let s = Ref::want_str(it.next().unwrap())?;
                Ok(V::I(s.chars().count() as i16))
            }
            Left => {
                let s = Ref::want_str(it.next().unwrap())?;
                let n = self.count_arg(it.next().unwrap(), 32767)?;
                Ok(V::T(s.chars().take(n).collect()))
            }
            Right => {
                let s = Ref::want_str(it.next().unwrap())?;
                let n = self.count_arg(it.next().unwrap(), 32767)?;
                let len = s.chars().count();
                Ok(V::T(s.chars().skip(len.saturating_sub(n)).collect()))
            }
            Mid => {
                let s = Ref::want_str(it.next().unwrap())?;
                let pos = self.count_arg(it.next().unwrap(), 32767)?;
                if pos == 0 {
                    self.grey("MID$ position 0");
                    return Ok(V::T(String::new()));
                }
                let len = s.chars().count();
                if pos > len {
                    // the manual: "begin with the character in position X" - nothing there
                    self.grey("MID$ position past the end");
                    return Ok(V::T(String::new()));
                }
                let rest = s.chars().skip(pos - 1);
                match it.next() {
                    None => Ok(V::T(rest.collect())),
                    Some(l) => {
                        let n = self.count_arg(l, 32767)?;
                        Ok(V::T(rest.take(n).collect()))
                    }
                }
            }
            Chr => {
                let n = self.count_arg(it.next().unwrap(), 0x10FFFF)?;
                match char::from_u32(n as u32) {
                    Some(c) => Ok(V::T(c.to_string())),
                    None => {
                        self.grey("CHR$ of a surrogate");
                        Ok(V::T(String::new()))
                    }
                }
            }
            Asc => {
                let s = Ref::want_str(it.next().unwrap())?;
                match s.chars().next() {
                    None => Err("ILLEGAL FUNCTION CALL"),
                    Some(c) => {
                        let n = c as u32;
                        if n <= 32767 {
                            Ok(V::I(n as i16))
                        } else {
                            Ok(V::S(n as f32))
                        }
                    }
                }
            }
            StringS => {
                let n = self.count_arg(it.next().unwrap(), 255)?;
                let c = match it.next().unwrap() {
                    V::T(s) => match s.chars().next() {
                        Some(c) => c,
                        None => return Err("ILLEGAL FUNCTION CALL"),
                    },
                    v => {
                        let code = self.count_arg(v, 0x10FFFF)?;
                        match char::from_u32(code as u32) {
                            Some(c) => c,
                            None => {
                                self.grey("STRING$ of a surrogate");
                                ' '
                            }
                        }
                    }
                };
                Ok(V::T(std::iter::repeat(c).take(n).collect()))
            }
            Spc => {
                let n = self.count_arg(it.next().unwrap(), 255)?;
                Ok(V::T(" ".repeat(n)))
            }
            Tab => {
                let v = it.next().unwrap();
                if let V::T(_) = v {
                    return Err("TYPE MISMATCH");
                }
                let f = v.as_f64().unwrap().floor();
                if !(-255.0..=255.0).contains(&f) {
                    self.grey("TAB beyond 255");
                    return Ok(V::T(String::new()));
                }
                let n = f as i64;
                let col = self.col as i64;
                let spaces = if n < 0 {
                    let w = -n;
                    w - (col % w)
                } else if n > col {
                    n - col
                } else {
                    0
                };
                Ok(V::T(" ".repeat(spaces as usize)))
            }
            Pos => {
                if self.col > 32767 {
                    self.grey("column beyond Integer range");
                }
                Ok(V::I(self.col.min(32767) as i16))
            }
            Str => {
                let v = it.next().unwrap();
                match fmt_num(&v) {
                    Some(s) => Ok(V::T(s)),
                    None => {
                        if let V::T(_) = v {
                            Err("TYPE MISMATCH")
                        } else {
                            self.grey("STR$ of a value needing exponent notation");
                            Ok(V::T(String::new()))
                        }
                    }
                }
            }
            Val => {
                let s = Ref::want_str(it.next().unwrap())?;
                match parse_number(s.trim()) {
                    Field::Num(n) => Ok(n),
                    _ => {
                        self.grey("VAL of a string that is not one plain number");
                        Ok(V::I(0))
                    }
                }
            }
            Inkey => {
                // the simulated operator of the model-judged checks never has a key down: every poll
                // is answered with the empty string (and leaves the cursor where it is)
                Ok(V::T(String::new()))
            }
            Rnd | Date | Time => {
                self.grey("RND/DATE$/TIME$ are not modelled");
                Ok(V::I(0))
            }
        }
    }

    fn call_fn(&mut self, name: &Var, args: &[Expr]) -> Result<V, RErr> {
        let key = name.text();
        let mut vals = vec![];
        for a in args {
            vals.push(self.eval(a)?);
        }
        let (params, body, def_line) = match self.fns.get(&key) {
            Some(x) => x.clone(),
            None => return Err("UNDEFINED USER FUNCTION"),
        };
        if params.len() != vals.len() {
            return Err("ILLEGAL FUNCTION CALL");
        }
        if self.tron {
            self.grey("user function called while tracing");
        }
        let mut frame = BTreeMap::new();
        for (p, v) in params.iter().zip(vals.into_iter()) {
            let ty = if p.sfx.is_none() {
                // type of an unsuffixed parameter follows the default; with DEFtype in
                // play the manual does not say which letter decides
                if self.deftype.iter().any(|t| *t != Ty::Sng) {
                    self.grey("unsuffixed FN parameter under DEFtype");
                }
                Ty::Sng
            } else {
                self.type_of(p)
            };
            match Ref::convert(ty, v) {
                Ok(c) => {
                    frame.insert(p.text(), c);
                }
                Err(e) => {
                    if def_line != self.cur_line {
                        self.grey("runtime error inside a user function body defined on another line");
                    }
                    return Err(e);
                }
            }
        }
        self.fn_depth += 1;
        self.max_depth = self.max_depth.max(self.fn_depth);
        if self.fn_depth > 200 {
            self.fn_depth -= 1;
            self.grey("deep user-function recursion (exhaustion is not modelled here)");
            return Ok(V::I(0));
        }
        self.locals.push(frame);
        let r = self.eval(&body);
        self.locals.pop();
        self.fn_depth -= 1;
        if r.is_err() && def_line != self.cur_line {
            // which line an error inside a function body is attributed to is not settled
            self.grey("runtime error inside a user function body defined on another line");
        }
        r
    }

    pub fn eval(&mut self, e: &Expr) -> Result<V, RErr> {
        match e {
            Expr::Int(n) => Ok(V::I(*n)),
            Expr::Sng(n) => Ok(V::S(*n)),
            Expr::Dbl(n) => Ok(V::D(*n)),
            Expr::Str(s) => Ok(V::T(s.clone())),
            Expr::L(l) => self.read_lval(l),
            Expr::Neg(x) => match self.eval(x)? {
                V::I(n) => {
                    if n == i16::MIN {
                        self.grey("negation of -32768");
                        Ok(V::I(0))
                    } else {
                        Ok(V::I(-n))
                    }
                }
                V::S(n) => Ok(V::S(-n)),
                V::D(n) => Ok(V::D(-n)),
                V::T(_) => Err("TYPE MISMATCH"),
            },
            Expr::Not(x) => {
                let v = self.eval(x)?;
                Ok(V::I(!Ref::to_i16(v)?))
            }
            Expr::Bin(op, a, b) => {
                let x = self.eval(a)?;
                let y = self.eval(b)?;
                self.arith(*op, x, y)
            }
            Expr::Call(f, args) => self.call(*f, args),
            Expr::Fn(name, args) => self.call_fn(name, args),
        }
    }

    // ---- control ------------------------------------------------------------

    fn resolve(&mut self, t: &Target) -> Option<usize> {
        match t {
            Target::L(i) => {
                if *i < self.prog.lines.len() {
                    Some(*i)
                } else {
                    self.grey("target index out of range");
                    None
                }
            }
            Target::Abs(n) => match self.prog.index_of(*n) {
                Some(i) => Some(i),
                None => {
                    self.grey("reference to a missing line (compile-time error, not modelled)");
                    None
                }
            },
        }
    }

    fn line_no(&self, place: Place) -> Option<u16> {
        match place {
            Place::Prog(i) => self.prog.lines.get(i).map(|l| l.num),
            Place::Direct => None,
        }
    }

    fn flat_at(&self, pos: Pos) -> Option<&Flat> {
        match pos.place {
            Place::Prog(i) => self.flat.get(i).and_then(|v| v.get(pos.idx)),
            Place::Direct => self.direct.get(pos.idx),
        }
    }

    /// Is there any executable statement at or after `pos` in the program?
    fn code_follows(&self, pos: Pos) -> bool {
        let (mut li, mut idx) = match pos.place {
            Place::Prog(i) => (i, pos.idx),
            Place::Direct => return true,
        };
        while li < self.flat.len() {
            for f in self.flat[li].iter().skip(idx) {
                match f {
                    Flat::S(Stmt::Rem(..)) | Flat::S(Stmt::Data(_)) | Flat::Eol => {}
                    _ => return true,
                }
            }
            li += 1;
            idx = 0;
        }
        false
    }

    fn do_clear(&mut self) {
        self.vars.clear();
        self.dims.clear();
        self.deftype = [Ty::Sng; 26];
        self.fns.clear();
        self.stack.clear();
        self.data_ptr = 0;
        self.data_unknown = false;
        self.cont = None;
        self.cont_after_error = false;
        self.cont_end_grey = false;
    }

    fn while_match(&mut self, pos: Pos, forward: bool) -> Option<Pos> {
        // WHILE/WEND are paired by source position like brackets over the whole program
        // (generated programs keep them at the top level of program lines).
        let mut seq: Vec<(Pos, bool)> = vec![];
        match pos.place {
            Place::Prog(_) => {
                for (li, fl) in self.flat.iter().enumerate() {
                    for (i, f) in fl.iter().enumerate() {
                        match f {
                            Flat::S(Stmt::While(_)) => seq.push((
                                Pos {
                                    place: Place::Prog(li),
                                    idx: i,
                                },
                                true,
                            )),
                            Flat::S(Stmt::Wend) => seq.push((
                                Pos {
                                    place: Place::Prog(li),
                                    idx: i,
                                },
                                false,
                            )),
                            _ => {}
                        }
                    }
                }
            }
            Place::Direct => {
                for (i, f) in self.direct.iter().enumerate() {
                    match f {
                        Flat::S(Stmt::While(_)) => seq.push((
                            Pos {
                                place: Place::Direct,
                                idx: i,
                            },
                            true,
                        )),
                        Flat::S(Stmt::Wend) => seq.push((
                            Pos {
                                place: Place::Direct,
                                idx: i,
                            },
                            false,
                        )),
                        _ => {}
                    }
                }
            }
        }
        let mut st: Vec<Pos> = vec![];
        for (p, open) in seq {
            if open {
                st.push(p);
            } else {
                match st.pop() {
                    None => {
                        self.grey("unmatched WEND");
                        return None;
                    }
                    Some(w) => {
                        if forward && w == pos {
                            return Some(p);
                        }
                        if !forward && p == pos {
                            return Some(w);
                        }
                    }
                }
            }
        }
        self.grey("unmatched WHILE");
        None
    }

    /// Execute from `pos` until the machine stops. Appends to `self.out`.
    fn run_from(&mut self, mut pos: Pos) -> Ended {
        loop {
            if self.grey.is_some() {
                return Ended::Budget;
            }
            self.steps += 1;
            if self.steps > self.max_steps {
                self.grey("step budget exceeded");
                return Ended::Budget;
            }
            // normalise position
            let flat = match self.flat_at(pos) {
                Some(f) => f.clone(),
                None => match pos.place {
                    Place::Prog(i) => {
                        if i + 1 < self.flat.len() {
                            pos = Pos {
                                place: Place::Prog(i + 1),
                                idx: 0,
                            };
                            continue;
                        }
                        // fell off the end of the program: implicit END, nothing to continue
                        if self.tron && self.last_traced != Some(i) {
                            self.grey("end of program reached by a jump while tracing");
                        }
                        self.cont = None;
                        self.ready();
                        return Ended::Ready;
                    }
                    Place::Direct => {
                        self.ready();
                        return Ended::Ready;
                    }
                },
            };
            let next = Pos {
                place: pos.place,
                idx: pos.idx + 1,
            };
            self.cur_line = match pos.place {
                Place::Prog(i) => Some(i),
                Place::Direct => None,
            };
            let stmt = match flat {
                Flat::Eol => {
                    pos = Pos {
                        place: pos.place,
                        idx: usize::MAX / 2,
                    };
                    continue;
                }
                Flat::IfNot(cond, target) => {
                    self.trace(pos.place);
                    *self.kinds.entry("IF").or_insert(0) += 1;
                    match self.eval(&cond) {
                        Err(e) => return self.fail(e, pos.place),
                        Ok(V::T(_)) => return self.fail("TYPE MISMATCH", pos.place),
                        Ok(v) => {
                            if v.as_f64().unwrap() == 0.0 {
                                pos = Pos {
                                    place: pos.place,
                                    idx: target,
                                };
                            } else {
                                pos = next;
                            }
                            continue;
                        }
                    }
                }
                Flat::S(s) => s,
            };
            if !matches!(stmt, Stmt::Rem(..) | Stmt::Data(_)) {
                self.trace(pos.place);
            } else if self.tron && matches!(pos.place, Place::Prog(_)) {
                self.grey("code-less statement passed while tracing");
            }
            *self.kinds.entry(stmt_kind(&stmt)).or_insert(0) += 1;
            match self.exec(&stmt, pos, next) {
                Ok(Flow::Next) => pos = next,
                Ok(Flow::Jump(p)) => pos = p,
                Ok(Flow::Stop(e)) => return e,
                Err(e) => {
                    if matches!(pos.place, Place::Prog(_)) {
                        // what a failed statement leaves on the stack for the rest of the session
                        // (ON..GOSUB's return address, operands of a half evaluated expression on top
                        // of the FOR / GOSUB frames) is not settled
                        self.residue_grey = true;
                    }
                    return self.fail(e, pos.place);
                }
            }
        }
    }

    fn trace(&mut self, place: Place) {
        if !self.tron {
            return;
        }
        if let Place::Prog(i) = place {
            if self.last_traced != Some(i) {
                self.last_traced = Some(i);
                let n = self.prog.lines[i].num;
                self.emit(&format!("[{}]", n));
            }
        } else {
            self.last_traced = None;
        }
    }

    fn fail(&mut self, e: RErr, place: Place) -> Ended {
        self.fresh_line();
        match self.line_no(place) {
            Some(n) => self.emit(&format!("?{} IN {}\n", e, n)),
            None => self.emit(&format!("?{}\n", e)),
        }
        if place == Place::Direct {
            // a failing direct statement: what survives is not settled by the manual
            self.stack.clear();
            self.cont = None;
        } else {
            // CONT after an error is a grey zone; nothing may rely on it
            self.cont = None;
            self.cont_after_error = true;
        }
        self.emit("READY.\n");
        Ended::Error
    }

    fn start_of(&self, line: usize) -> Pos {
        Pos {
            place: Place::Prog(line),
            idx: 0,
        }
    }

    fn exec(&mut self, s: &Stmt, pos: Pos, next: Pos) -> Result<Flow, RErr> {
        let in_prog = matches!(pos.place, Place::Prog(_));
        match s {
            Stmt::Rem(..) | Stmt::Data(_) => Ok(Flow::Next),
            Stmt::Let { target, expr, .. } => {
                let v = self.eval(expr)?;
                self.assign(target, v)?;
                Ok(Flow::Next)
            }
            Stmt::Print { items, .. } => {
                let mut newline = true;
                for it in items {
                    match it {
                        PItem::Semi => newline = false,
                        PItem::Comma => {
                            newline = false;
                            let n = 14 - (self.col % 14);
                            self.emit(&" ".repeat(n));
                        }
                        PItem::E(e) => {
                            newline = true;
                            let v = self.eval(e)?;
                            match v {
                                V::T(s) => self.emit(&s),
                                v => match fmt_num(&v) {
                                    Some(s) => {
                                        self.emit(&s);
                                        self.emit(" ");
                                    }
                                    None => {
                                        self.grey("printed number needs exponent notation or is not finite");
                                    }
                                },
                            }
                        }
                    }
                }
                if newline {
                    self.emit("\n");
                }
                Ok(Flow::Next)
            }
            Stmt::If { .. } => {
                // flattened away
                self.grey("internal: IF reached exec");
                Ok(Flow::Next)
            }
            Stmt::Goto(t) => match self.resolve(t) {
                Some(i) => Ok(Flow::Jump(self.start_of(i))),
                None => Ok(Flow::Next),
            },
            Stmt::Gosub(t) => match self.resolve(t) {
                Some(i) => {
                    self.stack.push(Frame::Gosub { resume: next, serial: self.direct_serial });
                    if self.stack.len() > 10_000 {
                        self.grey("deep GOSUB nesting (exhaustion is not modelled here)");
                    }
                    self.max_depth = self.max_depth.max(self.stack.len());
                    Ok(Flow::Jump(self.start_of(i)))
                }
                None => Ok(Flow::Next),
            },
            Stmt::Return => loop {
                match self.stack.pop() {
                    None => return Err("RETURN WITHOUT GOSUB"),
                    Some(Frame::Gosub { resume, serial }) => {
                        if resume.place == Place::Direct && serial != self.direct_serial {
                            self.grey("RETURN into a direct line that has been replaced since");
                        }
                        return Ok(Flow::Jump(resume));
                    }
                    Some(Frame::For { .. }) => continue,
                }
            },
            Stmt::OnGoto(e, ts) | Stmt::OnGosub(e, ts) => {
                let v = self.eval(e)?;
                let n = Ref::to_i16(v)?;
                if n < 0 {
                    return Err("ILLEGAL FUNCTION CALL");
                }
                if n == 0 || n as usize > ts.len() {
                    return Ok(Flow::Next);
                }
                match self.resolve(&ts[n as usize - 1]) {
                    Some(i) => {
                        if matches!(s, Stmt::OnGosub(..)) {
                            self.stack.push(Frame::Gosub { resume: next, serial: self.direct_serial });
                            self.max_depth = self.max_depth.max(self.stack.len());
                        }
                        Ok(Flow::Jump(self.start_of(i)))
                    }
                    None => Ok(Flow::Next),
                }
            }
            Stmt::For {
                var,
                from,
                to,
                step,
            } => {
                let name = var.text();
                if self
                    .stack
                    .iter()
                    .any(|f| matches!(f, Frame::For { var, .. } if *var == name))
                {
                    self.grey("FOR on a variable that already has an active loop");
                }
                let x = self.eval(from)?;
                self.assign(&LVal {
                    var: var.clone(),
                    idx: vec![],
                }, x)?;
                let y = self.eval(to)?;
                let z = match step {
                    Some(s) => self.eval(s)?,
                    None => V::I(1),
                };
                if let (V::T(_), _) | (_, V::T(_)) = (&y, &z) {
                    self.grey("string as FOR limit or step");
                }
                if z.as_f64() == Some(0.0) {
                    self.grey("FOR with step 0");
                }
                // the step must be representable in the loop variable's type
                let vt = self.type_of(var);
                if let Ok(c) = Ref::convert(vt, z.clone()) {
                    if c.as_f64() != z.as_f64() {
                        self.grey("FOR step not exact in the loop variable's type");
                    }
                }
                let serial_now = self.direct_serial;
                self.stack.push(Frame::For {
                    serial: serial_now,
                    var: name,
                    to: y,
                    step: z,
                    resume: next,
                });
                self.max_depth = self.max_depth.max(self.stack.len());
                Ok(Flow::Next)
            }
            Stmt::Next(vars) => {
                let names: Vec<Option<String>> = if vars.is_empty() {
                    vec![None]
                } else {
                    vars.iter().map(|v| Some(v.text())).collect()
                };
                for name in names {
                    // find the frame
                    loop {
                        match self.stack.last() {
                            Some(Frame::For { var, .. }) => {
                                if let Some(n) = &name {
                                    if var != n {
                                        self.stack.pop();
                                        continue;
                                    }
                                }
                                break;
                            }
                            _ => return Err("NEXT WITHOUT FOR"),
                        }
                    }
                    let (var, to, step, resume, stale) = match self.stack.last() {
                        Some(Frame::For {
                            var,
                            to,
                            step,
                            resume,
                            serial,
                        }) => (
                            var.clone(),
                            to.clone(),
                            step.clone(),
                            *resume,
                            resume.place == Place::Direct && *serial != self.direct_serial,
                        ),
                        _ => unreachable!(),
                    };
                    if stale {
                        self.grey("NEXT into a direct line that has been replaced since");
                    }
                    let lv = LVal::scalar(&var);
                    let cur = self.read_lval(&lv)?;
                    let sum = self.arith(BinOp::Add, cur, step.clone())?;
                    self.assign(&lv, sum)?;
                    let now = self.read_lval(&lv)?;
                    let neg = step.as_f64().unwrap_or(1.0) < 0.0;
                    let past = if neg {
                        self.arith(BinOp::Lt, now, to)?
                    } else {
                        self.arith(BinOp::Gt, now, to)?
                    };
                    if past == V::I(-1) {
                        self.stack.pop();
                        // continue with the next variable of the list / next statement
                    } else {
                        return Ok(Flow::Jump(resume));
                    }
                }
                Ok(Flow::Next)
            }
            Stmt::While(cond) => {
                let v = self.eval(cond)?;
                let f = match v {
                    V::T(_) => return Err("TYPE MISMATCH"),
                    v => v.as_f64().unwrap(),
                };
                if f != 0.0 {
                    Ok(Flow::Next)
                } else {
                    match self.while_match(pos, true) {
                        Some(w) => Ok(Flow::Jump(Pos {
                            place: w.place,
                            idx: w.idx + 1,
                        })),
                        None => Ok(Flow::Next),
                    }
                }
            }
            Stmt::Wend => match self.while_match(pos, false) {
                Some(w) => Ok(Flow::Jump(w)),
                None => Ok(Flow::Next),
            },
            Stmt::End => {
                if in_prog {
                    if self.code_follows(next) {
                        self.cont = Some(next);
                    } else {
                        // END as the last thing in the program: nothing left to continue
                        self.cont = None;
                        if let Place::Prog(i) = pos.place {
                            // ... settled only for a plain END that is the last statement of the last
                            // line; lines without code behind it (REM, DATA) or an END inside an IF
                            // branch are not
                            let plain_last = i + 1 == self.flat.len() && matches!(self.prog.lines.get(i).and_then(|l| l.stmts.last()), Some(Stmt::End));
                            if !plain_last {
                                self.cont_end_grey = true;
                            }
                        }
                    }
                }
                self.ready();
                Ok(Flow::Stop(Ended::Ready))
            }
            Stmt::Stop => {
                self.fresh_line();
                match self.line_no(pos.place) {
                    Some(n) => self.emit(&format!("?BREAK IN {}\n", n)),
                    None => self.emit("?BREAK\n"),
                }
                if in_prog {
                    self.cont = Some(next);
                } else {
                    self.grey("STOP in direct mode");
                }
                self.emit("READY.\n");
                Ok(Flow::Stop(Ended::Break))
            }
            Stmt::Input {
                nocaps,
                prompt,
                targets,
            } => {
                let p = format!("{}? ", prompt.clone().unwrap_or_default());
                loop {
                    self.steps += 1;
                    if self.steps > self.max_steps {
                        self.grey("step budget exceeded");
                        return Ok(Flow::Stop(Ended::Budget));
                    }
                    self.emit(&p);
                    if *nocaps {
                        self.out.push_str("{nocaps}");
                    }
                    let reply = match self.replies.pop_front() {
                        Some(r) => r,
                        None => {
                            let tys: Vec<Ty> = targets.iter().map(|t| self.type_of(&t.var)).collect();
                            let streak = self.bad_streak;
                            if self.used_replies.len() >= 40 {
                                return Ok(Flow::Stop(Ended::NeedInput));
                            }
                            match &mut self.auto_reply {
                                Some(rng) => {
                                    let bad = streak < 2 && rng.pct(25);
                                    let r = crate::gen::gen_reply(rng, &tys, bad);
                                    self.bad_streak = if bad { streak + 1 } else { 0 };
                                    r
                                }
                                None => return Ok(Flow::Stop(Ended::NeedInput)),
                            }
                        }
                    };
                    self.used_replies.push(reply.clone());
                    self.emit(&reply);
                    self.emit("\n");
                    match self.accept_reply(targets, &reply) {
                        ReplyResult::Accepted => break,
                        ReplyResult::Redo => {
                            self.redo_count += 1;
                            self.emit("?REDO FROM START\n");
                        }
                        ReplyResult::Grey(w) => {
                            self.grey(&w);
                            break;
                        }
                    }
                }
                Ok(Flow::Next)
            }
            Stmt::Read(targets) => {
                if self.data_unknown {
                    self.grey("READ after an edit without RUN / CLEAR / RESTORE in between");
                }
                for t in targets {
                    let v = match self.data.get(self.data_ptr) {
                        Some((_, v)) => v.clone(),
                        None => return Err("OUT OF DATA"),
                    };
                    self.data_ptr += 1;
                    self.assign(t, v)?;
                }
                Ok(Flow::Next)
            }
            Stmt::Restore(t) => {
                self.data_unknown = false;
                match t {
                    None => self.data_ptr = 0,
                    Some(t) => {
                        if let Some(i) = self.resolve(t) {
                            self.data_ptr = self
                                .data
                                .iter()
                                .position(|(l, _)| *l >= i)
                                .unwrap_or(self.data.len());
                        }
                    }
                }
                Ok(Flow::Next)
            }
            Stmt::Dim(ls) => {
                for l in ls {
                    let name = l.var.text();
                    let subs = match self.subscripts(l) {
                        Ok(s) => s,
                        Err(e) => {
                            if self.dims.contains_key(&name) {
                                self.grey("DIM of an existing array with an unusable bound: which error is reported is not settled");
                            }
                            return Err(e);
                        }
                    };
                    if self.dims.contains_key(&name) {
                        return Err("REDIMENSIONED ARRAY");
                    }
                    self.dims.insert(name, subs);
                }
                Ok(Flow::Next)
            }
            Stmt::Erase(vs) => {
                for v in vs {
                    let name = v.text();
                    if self.dims.remove(&name).is_none() {
                        return Err("ILLEGAL FUNCTION CALL");
                    }
                    let prefix = format!("{}(", name);
                    self.vars.retain(|k, _| !k.starts_with(&prefix));
                }
                Ok(Flow::Next)
            }
            Stmt::DefFn { name, params, body } => {
                if !in_prog {
                    return Err("ILLEGAL DIRECT");
                }
                let here = match pos.place {
                    Place::Prog(i) => Some(i),
                    Place::Direct => None,
                };
                self.fns
                    .insert(name.text(), (params.clone(), body.clone(), here));
                Ok(Flow::Next)
            }
            Stmt::DefType(ty, a, b) => {
                for c in (*a as u8)..=(*b as u8) {
                    self.deftype[(c - b'A') as usize] = *ty;
                }
                // "Any existing variables not matching the new type are dropped."
                // Which unsuffixed variables that covers outside the range is not settled:
                // judged only when nothing of another type exists.
                let mut doomed = vec![];
                for (k, v) in self.vars.iter() {
                    let base = k.split('(').next().unwrap_or("");
                    let unsuffixed = base
                        .chars()
                        .last()
                        .map(|c| c.is_ascii_alphanumeric())
                        .unwrap_or(false);
                    if unsuffixed && v.ty() != *ty {
                        let first = base.chars().next().unwrap_or('A');
                        if first >= *a && first <= *b {
                            doomed.push(k.clone());
                        } else {
                            self.grey = self
                                .grey
                                .clone()
                                .or(Some("DEFtype with unsuffixed variables of another type outside the range".into()));
                        }
                    }
                }
                for k in doomed {
                    self.vars.remove(&k);
                }
                Ok(Flow::Next)
            }
            Stmt::Swap(a, b) => {
                let va = self.read_lval(a)?;
                let vb = self.read_lval(b)?;
                if va.ty() != vb.ty() {
                    return Err("TYPE MISMATCH");
                }
                self.assign(a, vb)?;
                self.assign(b, va)?;
                Ok(Flow::Next)
            }
            Stmt::MidSet {
                target,
                pos: p,
                len,
                expr,
            } => {
                let orig = Ref::want_str(self.read_lval(target)?)?;
                let ins = Ref::want_str(self.eval(expr)?)?;
                let lenv = match len {
                    Some(l) => {
                        let v = self.eval(l)?;
                        self.count_arg(v, 32767)?
                    }
                    None => 32767,
                };
                let pv = self.eval(p)?;
                let start = self.count_arg(pv, 32767)?;
                if start == 0 {
                    return Err("ILLEGAL FUNCTION CALL");
                }
                let chars: Vec<char> = orig.chars().collect();
                let mut out: Vec<char> = chars.clone();
                let mut i = start - 1;
                for c in ins.chars().take(lenv) {
                    if i >= out.len() {
                        break;
                    }
                    out[i] = c;
                    i += 1;
                }
                self.assign(target, V::T(out.into_iter().collect()))?;
                Ok(Flow::Next)
            }
            Stmt::Tron => {
                self.tron = true;
                self.last_traced = match pos.place {
                    Place::Prog(i) => Some(i),
                    Place::Direct => None,
                };
                Ok(Flow::Next)
            }
            Stmt::Troff => {
                self.tron = false;
                Ok(Flow::Next)
            }
            Stmt::Clear => {
                if !self.stack.is_empty() {
                    self.grey("CLEAR with active FOR/GOSUB frames");
                }
                self.do_clear();
                Ok(Flow::Next)
            }
            Stmt::Cls => {
                self.grey("CLS not modelled");
                Ok(Flow::Next)
            }
            Stmt::Run(t) => {
                let target = match t {
                    None => {
                        if self.prog.lines.is_empty() {
                            None
                        } else {
                            Some(0)
                        }
                    }
                    Some(t) => self.resolve(t),
                };
                self.do_clear();
                match target {
                    Some(i) => Ok(Flow::Jump(self.start_of(i))),
                    None => {
                        if t.is_none() {
                            // RUN with no program: ends at once
                            self.ready();
                            Ok(Flow::Stop(Ended::Ready))
                        } else {
                            Ok(Flow::Next)
                        }
                    }
                }
            }
            Stmt::Cont => {
                if in_prog {
                    self.grey("CONT inside a program");
                    return Ok(Flow::Next);
                }
                if self.cont_after_error {
                    self.grey("CONT after a runtime error");
                    return Ok(Flow::Next);
                }
                if self.cont_end_grey && self.cont.is_none() {
                    self.grey("CONT after an END that only lines without code follow");
                    return Ok(Flow::Next);
                }
                match self.cont.take() {
                    None => Err("CAN'T CONTINUE"),
                    Some(p) => {
                        if self.tron {
                            self.grey("CONT with TRON on");
                        }
                        Ok(Flow::Jump(p))
                    }
                }
            }
            Stmt::ListCmd(a, b) => {
                // lists the stored program (rendered text is a fixed point for generated programs);
                // every listed line ends the screen line
                let lo = match a {
                    None => 0u32,
                    Some(Target::Abs(n)) => *n as u32,
                    Some(Target::L(i)) => self.prog.lines.get(*i).map(|l| l.num as u32).unwrap_or(0),
                };
                let hi = match (a, b) {
                    (_, Some(Target::Abs(n))) => *n as u32,
                    (_, Some(Target::L(i))) => self.prog.lines.get(*i).map(|l| l.num as u32).unwrap_or(65529),
                    (Some(_), None) => lo,
                    (None, None) => 65529,
                };
                if in_prog {
                    self.grey("LIST inside a program");
                }
                for i in 0..self.prog.lines.len() {
                    let n = self.prog.lines[i].num as u32;
                    if n >= lo && n <= hi {
                        let t = render_line(&self.prog, i);
                        self.out.push_str(&t);
                        self.out.push('\n');
                        self.col = 0;
                    }
                }
                Ok(Flow::Next)
            }
            Stmt::DeleteCmd(..) | Stmt::FromCmd(..) | Stmt::Raw(_) => {
                self.grey("statement not interpreted by the reference model");
                Ok(Flow::Next)
            }
        }
    }

    // ---- INPUT replies ------------------------------------------------------

    fn accept_reply(&mut self, targets: &[LVal], reply: &str) -> ReplyResult {
        if reply.len() > 1024 {
            return ReplyResult::Redo;
        }
        let fields: Vec<String> = if targets.len() == 1 {
            vec![reply.to_string()]
        } else {
            let mut v = vec![];
            let mut cur = String::new();
            let mut q = false;
            for ch in reply.chars() {
                if ch == '"' {
                    q = !q;
                    cur.push(ch);
                } else if ch == ',' && !q {
                    v.push(std::mem::take(&mut cur));
                } else {
                    cur.push(ch);
                }
            }
            v.push(cur);
            // an opening quote that is never closed keeps everything behind it inside the quotes:
            // the commas there do not split (forward scan, as the statement reads)
            let _ = q;
            v
        };
        if fields.len() != targets.len() {
            return ReplyResult::Redo;
        }
        for (t, f) in targets.iter().zip(fields.iter()) {
            let f = f.trim_matches(|c| c == ' ' || c == '\t');
            if f != f.trim() {
                return ReplyResult::Grey("reply field with exotic white space".into());
            }
            let ty = self.type_of(&t.var);
            let v = if ty == Ty::Str {
                let inner = if f.chars().count() >= 2 && f.starts_with('"') && f.ends_with('"') {
                    &f[1..f.len() - 1]
                } else {
                    f
                };
                if inner.contains('"') && targets.len() == 1 {
                    // quotes inside a whole-line reply: kept as they are
                }
                V::T(inner.to_string())
            } else if f.is_empty() {
                V::I(0)
            } else {
                match parse_number(f) {
                    Field::Num(v) => v,
                    Field::Bad => return ReplyResult::Redo,
                    Field::Grey => return ReplyResult::Grey(format!("numeric reply spelling {:?}", f)),
                }
            };
            let r = if t.idx.is_empty() {
                self.assign_to(t, None, v)
            } else {
                match self.subscripts(t) {
                    Ok(s) => self.assign_to(t, Some(s), v),
                    Err(e) => Err(e),
                }
            };
            if r.is_err() {
                return ReplyResult::Redo;
            }
        }
        ReplyResult::Accepted
    }

    // ---- sessions -----------------------------------------------------------

    /// Execute one direct-mode line. Returns how it ended; output appended to `out`.
    pub fn direct_line(&mut self, stmts: &[Stmt]) -> Ended {
        if !stmts.is_empty() && stmts.iter().all(|s| matches!(s, Stmt::Data(_))) {
            // DATA typed as a direct statement: no effect on the program's DATA; what it answers and
            // what of the pending execution state survives is not settled
            self.cont = None;
            self.cont_after_error = true;
            self.stack.clear();
            self.ready();
            return Ended::Ready;
        }
        self.direct_serial += 1;
        if self.residue_grey {
            if matches!(stmts.first(), Some(Stmt::Run(_)) | Some(Stmt::Clear)) {
                self.residue_grey = false;
            } else {
                // only lines that use the stack's frames or enter the program again are affected
                let mut control = false;
                crate::gen::walk_stmts(stmts, &mut |s| {
                    if matches!(
                        s,
                        Stmt::Goto(_) | Stmt::Gosub(_) | Stmt::Return | Stmt::Next(_) | Stmt::Cont | Stmt::OnGoto(..) | Stmt::OnGosub(..) | Stmt::For { .. } | Stmt::While(_) | Stmt::Wend | Stmt::Run(_)
                    ) || matches!(s, Stmt::If { then: Branch::Line(_), .. })
                        || matches!(s, Stmt::If { els: Some(Branch::Line(_)), .. })
                    {
                        control = true;
                    }
                });
                if control {
                    self.grey("session continued (without RUN / CLEAR) after a statement of the program failed");
                }
            }
        }
        self.direct.clear();
        let mut v = vec![];
        flatten(stmts, &mut v);
        self.direct = v;
        self.last_traced = None;
        self.run_from(Pos {
            place: Place::Direct,
            idx: 0,
        })
    }

    pub fn stack_depth(&self) -> usize {
        self.stack.len()
    }
}

enum ReplyResult {
    Accepted,
    Redo,
    Grey(String),
}

pub enum Field {
    Num(V),
    Bad,
    Grey,
}

/// Numeric field of an INPUT reply / argument of VAL, already trimmed and not empty.
/// Clearly valid spellings give a value, clearly invalid ones `Bad`, the rest `Grey`.
pub fn parse_number(f: &str) -> Field {
    if f.is_empty() {
        return Field::Grey;
    }
    if !f.is_ascii() {
        return Field::Bad;
    }
    let b = f.as_bytes();
    if b[0] == b'&' {
        let (digits, radix) = if b.len() > 1 && (b[1] == b'H' || b[1] == b'h') {
            (&f[2..], 16)
        } else {
            (&f[1..], 8)
        };
        if digits.is_empty() {
            return Field::Grey;
        }
        if !digits.chars().all(|c| c.is_digit(radix)) {
            // a sign, a blank or a foreign digit after the prefix
            if digits.chars().all(|c| c.is_ascii_alphanumeric()) {
                return Field::Bad;
            }
            return Field::Grey;
        }
        return match i64::from_str_radix(digits, radix) {
            Ok(n) if n <= 32767 => Field::Num(V::I(n as i16)),
            // 32768..65535: the manual shows HEX$(-1) = FFFF but not the way back
            _ => Field::Grey,
        };
    }
    // decimal: [sign] digits [. digits] [E|D [sign] digits]
    let mut i = 0;
    let n = b.len();
    if b[i] == b'+' || b[i] == b'-' {
        i += 1;
    }
    let ds = i;
    while i < n && b[i].is_ascii_digit() {
        i += 1;
    }
    let mut digits = i - ds;
    if i < n && b[i] == b'.' {
        i += 1;
        let fs = i;
        while i < n && b[i].is_ascii_digit() {
            i += 1;
        }
        digits += i - fs;
    }
    if digits == 0 {
        // no digit at all: letters are clearly not a number, lone signs/dots are grey
        if f.chars().any(|c| c.is_ascii_alphabetic()) && !f.to_ascii_lowercase().starts_with("inf") && !f.to_ascii_lowercase().starts_with("nan")
            && !f[ds.min(f.len())..].to_ascii_lowercase().starts_with("inf")
            && !f[ds.min(f.len())..].to_ascii_lowercase().starts_with("nan")
        {
            return Field::Bad;
        }
        return Field::Grey;
    }
    if i < n && (b[i] == b'E' || b[i] == b'e' || b[i] == b'D' || b[i] == b'd') {
        let save = i;
        i += 1;
        if i < n && (b[i] == b'+' || b[i] == b'-') {
            i += 1;
        }
        let es = i;
        while i < n && b[i].is_ascii_digit() {
            i += 1;
        }
        if i == es {
            // exponent letter without digits
            let _ = save;
            return Field::Grey;
        }
    }
    if i != n {
        let rest = &f[i..];
        if rest == "!" || rest == "#" || rest == "%" {
            return Field::Grey;
        }
        if rest.chars().any(|c| c.is_ascii_alphabetic() || c == ' ' || c == ',' || c == '"') {
            return Field::Bad;
        }
        return Field::Grey;
    }
    let norm: String = f
        .chars()
        .map(|c| if c == 'D' || c == 'd' { 'E' } else { c })
        .collect();
    match norm.parse::<f64>() {
        Ok(v) if v.is_finite() => Field::Num(V::D(v)),
        _ => Field::Grey,
    }
}
