//! Helpers shared by the property drivers: typing programs, running them to
//! completion through STOP/END/interrupts with CONT, normalised token streams,
//! variable probes.

use crate::ast::*;
use crate::gen::walk_stmts;
use crate::json::{obj, Json};
use crate::world::*;
use std::collections::BTreeSet;

/// Normalised observable stream of a program's execution.
#[derive(Clone, Debug, PartialEq)]
pub enum Tok {
    Out(String),
    In(String, bool),
    Reply(String),
    Err(String),
    List(String),
    Key(String),
    Cls,
    Other(String),
}

pub fn err_code(text: &str) -> String {
    // "?TYPE MISMATCH IN 30; MESSAGE" -> "?TYPE MISMATCH IN 30"
    match text.find(';') {
        Some(i) => text[..i].to_string(),
        None => text.to_string(),
    }
}

fn push_out(v: &mut Vec<Tok>, s: &str) {
    if s.is_empty() {
        return;
    }
    if let Some(Tok::Out(prev)) = v.last_mut() {
        prev.push_str(s);
    } else {
        v.push(Tok::Out(s.to_string()));
    }
}

pub fn is_ready_print(s: &str) -> bool {
    s == "READY.\n" || s == "\nREADY.\n"
}

/// Token stream of one line's events with the prompt, break reports and the
/// line breaks they force removed (see DESIGN.md C13 "Oracle").
pub fn tokens(evs: &[Ev]) -> Vec<Tok> {
    let mut v: Vec<Tok> = vec![];
    let mut i = 0;
    while i < evs.len() {
        match &evs[i] {
            Ev::Entered(_) | Ev::Stopped | Ev::Inkey | Ev::ForcedNl => {}
            Ev::Break => {
                // an Input prompt that was showing when the break arrived is shown again after CONT
                if let Some(Tok::In(..)) = v.last() {
                    v.pop();
                }
                // the break report itself (forced line break, ?BREAK, prompt) is dropped below
            }
            Ev::Print(s) => {
                if is_ready_print(s) {
                    // prompt (with the line break it forces when the cursor is mid-line)
                } else {
                    push_out(&mut v, s);
                }
            }
            Ev::Errors(es) => {
                let all_break = es.iter().all(|e| e.text.starts_with("?BREAK"));
                if !all_break {
                    for e in es {
                        v.push(Tok::Err(err_code(&e.text)));
                    }
                }
            }
            Ev::Input(p, c) => v.push(Tok::In(p.clone(), *c)),
            Ev::Reply(r) => v.push(Tok::Reply(r.clone())),
            Ev::List(l, _) => v.push(Tok::List(l.clone())),
            Ev::Key(k) => v.push(Tok::Key(k.clone())),
            Ev::Cls => v.push(Tok::Cls),
            Ev::Load(n) => v.push(Tok::Other(format!("LOAD {}", n))),
            Ev::RunFile(n) => v.push(Tok::Other(format!("RUNFILE {}", n))),
            Ev::Save(n) => v.push(Tok::Other(format!("SAVE {}", n))),
            Ev::TermError(t) => v.push(Tok::Err(t.clone())),
        }
        i += 1;
    }
    v
}

pub fn merge_tokens(a: &mut Vec<Tok>, b: Vec<Tok>) {
    for t in b {
        match t {
            Tok::Out(s) => push_out(a, &s),
            other => a.push(other),
        }
    }
}

pub fn has_break(evs: &[Ev]) -> bool {
    evs.iter().any(|e| matches!(e, Ev::Errors(es) if es.iter().any(|x| x.text.starts_with("?BREAK"))))
}

pub fn has_error_other_than_break(evs: &[Ev]) -> bool {
    evs.iter().any(|e| match e {
        Ev::Errors(es) => es.iter().any(|x| !x.text.starts_with("?BREAK") && !x.text.starts_with("?REDO")),
        Ev::TermError(_) => true,
        _ => false,
    })
}

pub fn has_cant_continue(evs: &[Ev]) -> bool {
    evs.iter().any(|e| matches!(e, Ev::Errors(es) if es.iter().any(|x| x.text.starts_with("?CAN'T CONTINUE"))))
}

pub fn replies_used(evs: &[Ev]) -> usize {
    evs.iter().filter(|e| matches!(e, Ev::Reply(_))).count()
}

pub fn keys_used(evs: &[Ev]) -> usize {
    evs.iter().filter(|e| matches!(e, Ev::Key(_))).count()
}

pub fn enter_program(w: &mut World, lines: &[String]) {
    for l in lines {
        w.line(l, &LineIo::budget(1000));
    }
}

#[derive(Clone, Debug, Default)]
pub struct Completion {
    pub toks: Vec<Tok>,
    /// instructions executed by each typed line (RUN, CONT, CONT, ...)
    pub per_line_instr: Vec<u64>,
    pub lines_typed: Vec<String>,
    pub conts: usize,
    pub ended_by_error: bool,
    pub budget_hit: bool,
    pub abandoned_input: bool,
    /// an interrupt was delivered while the direct line itself was executing
    pub intr_outside_program: bool,
    pub intr_fired: usize,
    pub col_at_break: Option<usize>,
    /// stopped typing CONT because the limit on continuations was reached
    pub cont_limit: bool,
}

/// One planned interrupt: global instruction index over the whole completion, or a wait state.
#[derive(Clone, Debug, PartialEq)]
pub enum Plan {
    None,
    /// after k instructions counted over RUN and all CONT lines
    Instr(u64),
    AtInput(usize),
    AfterReply(usize),
    /// right after the j-th listed line (a LIST statement of the program is being served)
    AfterList(usize),
}

pub const CONT_BEHIND_PRINT: &str = "PRINT \"AGAIN: \";:CONT";

/// Type `first` (usually RUN) and then CONT until the program has really ended.
/// `inspect`: a non-assigning direct line typed after every stop, before CONT.
#[allow(clippy::too_many_arguments)]
pub fn run_to_completion(
    w: &mut World,
    first: &str,
    replies: &[String],
    keys: &[String],
    plan: &Plan,
    inspect: Option<&str>,
    max_instr: u64,
    max_conts: usize,
) -> Completion {
    let mut c = Completion::default();
    let mut reply_pos = 0usize;
    let mut key_pos = 0usize;
    let mut instr_before: u64 = 0;
    let mut inputs_before: usize = 0;
    let mut replies_before: usize = 0;
    let mut lists_before: usize = 0;
    let mut line = first.to_string();
    let mut plan_left = plan.clone();
    loop {
        let mut io = LineIo {
            replies: replies[reply_pos.min(replies.len())..].to_vec(),
            keys: keys[key_pos.min(keys.len())..].to_vec(),
            intrs: vec![],
            max_instr,
            cycle_replies: false,
            host_load: None,
            host_load_after_list: None,
            max_slices: 0,
        };
        match &plan_left {
            Plan::None => {}
            Plan::Instr(k) => {
                if *k >= instr_before {
                    io.intrs.push(When::Instr(*k - instr_before));
                }
            }
            Plan::AtInput(j) => {
                if *j >= inputs_before {
                    io.intrs.push(When::AtInput(*j - inputs_before));
                }
            }
            Plan::AfterReply(j) => {
                if *j >= replies_before {
                    io.intrs.push(When::AfterReply(*j - replies_before));
                }
            }
            Plan::AfterList(j) => {
                if *j >= lists_before {
                    io.intrs.push(When::AfterList(*j - lists_before));
                }
            }
        }
        let col_before_line = w.true_col;
        let _ = col_before_line;
        let o = w.line(&line, &io);
        c.lines_typed.push(line.clone());
        c.per_line_instr.push(o.instr);
        let evs = w.events[o.ev_start..o.ev_end].to_vec();
        if o.intr_fired > 0 {
            c.intr_fired += o.intr_fired;
            plan_left = Plan::None;
        }
        if o.budget_hit {
            c.budget_hit = true;
        }
        if o.input_abandoned > 0 {
            c.abandoned_input = true;
        }
        reply_pos += replies_used(&evs);
        key_pos += keys_used(&evs);
        instr_before += o.instr;
        inputs_before += evs.iter().filter(|e| matches!(e, Ev::Input(..))).count();
        replies_before += replies_used(&evs);
        lists_before += evs.iter().filter(|e| matches!(e, Ev::List(..))).count();
        let mut t = tokens(&evs);
        if line == CONT_BEHIND_PRINT {
            // the resumption line's own output is not the program's
            if let Some(Tok::Out(s)) = t.first_mut() {
                if let Some(rest) = s.strip_prefix("AGAIN: ") {
                    *s = rest.to_string();
                }
            }
            if matches!(t.first(), Some(Tok::Out(s)) if s.is_empty()) {
                t.remove(0);
            }
        }
        let stopped_at_input_wait = o.intr_fired > 0 && w.intr_at_input_wait;
        if w.fatal.is_some() {
            merge_tokens(&mut c.toks, t);
            return c;
        }
        if c.budget_hit || c.abandoned_input {
            merge_tokens(&mut c.toks, t);
            return c;
        }
        if line == "CONT" && has_cant_continue(&evs) {
            // the program had already ended: drop the report of the probing CONT
            t.retain(|x| !matches!(x, Tok::Err(e) if e.starts_with("?CAN'T CONTINUE")));
            merge_tokens(&mut c.toks, t);
            return c;
        }
        merge_tokens(&mut c.toks, t);
        if has_error_other_than_break(&evs) {
            c.ended_by_error = true;
            return c;
        }
        if c.conts >= max_conts {
            c.cont_limit = true;
            return c;
        }
        if let Some(i) = inspect {
            if has_break(&evs) || evs.iter().any(|e| matches!(e, Ev::Break)) {
                // (an inspection line may be an INPUT of its own: it gets its own reply)
                let io = LineIo {
                    replies: vec!["5".to_string()],
                    max_instr: 2000,
                    ..Default::default()
                };
                w.line(i, &io);
            }
        }
        c.conts += 1;
        // broken at a pending INPUT prompt: the operator may resume behind a PRINT that leaves the
        // cursor mid-line; the prompt is shown again and the reply's line feed resets the column
        line = if w.cont_behind_print && stopped_at_input_wait {
            w.stats.bump("c13.cont_typed_behind_print");
            CONT_BEHIND_PRINT.to_string()
        } else {
            "CONT".to_string()
        };
    }
}

/// Every scalar name and every array element with literal subscripts mentioned by the program.
pub fn mentioned_lvals(p: &Program) -> Vec<String> {
    let mut set: BTreeSet<String> = BTreeSet::new();
    fn expr(e: &Expr, p: &Program, set: &mut BTreeSet<String>) {
        match e {
            Expr::L(l) => lval(l, p, set),
            Expr::Neg(x) | Expr::Not(x) => expr(x, p, set),
            Expr::Bin(_, a, b) => {
                expr(a, p, set);
                expr(b, p, set);
            }
            Expr::Call(_, args) | Expr::Fn(_, args) => {
                for a in args {
                    expr(a, p, set)
                }
            }
            _ => {}
        }
    }
    fn lval(l: &LVal, p: &Program, set: &mut BTreeSet<String>) {
        if l.idx.is_empty() {
            set.insert(l.var.text());
        } else {
            if l.idx.iter().all(|e| matches!(e, Expr::Int(_))) {
                set.insert(render_lval(p, l));
            }
            for e in &l.idx {
                expr(e, p, set);
            }
        }
    }
    for line in &p.lines {
        walk_stmts(&line.stmts, &mut |s| match s {
            Stmt::Let { target, expr: e, .. } => {
                lval(target, p, &mut set);
                expr(e, p, &mut set);
            }
            Stmt::Print { items, .. } => {
                for it in items {
                    if let PItem::E(e) = it {
                        expr(e, p, &mut set)
                    }
                }
            }
            Stmt::If { cond, .. } => expr(cond, p, &mut set),
            Stmt::OnGoto(e, _) | Stmt::OnGosub(e, _) | Stmt::While(e) => expr(e, p, &mut set),
            Stmt::For { var, from, to, step } => {
                set.insert(var.text());
                expr(from, p, &mut set);
                expr(to, p, &mut set);
                if let Some(s) = step {
                    expr(s, p, &mut set);
                }
            }
            Stmt::Input { targets, .. } | Stmt::Read(targets) => {
                for t in targets {
                    lval(t, p, &mut set)
                }
            }
            Stmt::Swap(a, b) => {
                lval(a, p, &mut set);
                lval(b, p, &mut set);
            }
            Stmt::MidSet {
                target,
                pos,
                len,
                expr: e,
            } => {
                lval(target, p, &mut set);
                expr(pos, p, &mut set);
                if let Some(l) = len {
                    expr(l, p, &mut set);
                }
                expr(e, p, &mut set);
            }
            _ => {}
        });
    }
    set.into_iter().collect()
}

/// Direct lines that print every mentioned variable (8 per line, each item bracketed).
pub fn probe_lines(p: &Program) -> Vec<String> {
    let names = mentioned_lvals(p);
    let mut out = vec![];
    for chunk in names.chunks(8) {
        let items: Vec<String> = chunk.iter().map(|n| format!("\"<\";{};\">\"", n)).collect();
        out.push(format!("PRINT {}", items.join(";")));
    }
    out
}

pub fn run_probes(w: &mut World, lines: &[String]) -> Vec<Tok> {
    let mut v = vec![];
    for l in lines {
        let o = w.line(l, &LineIo::budget(5000));
        merge_tokens(&mut v, tokens(&w.events[o.ev_start..o.ev_end]));
    }
    v
}

pub fn toks_json(t: &[Tok]) -> Json {
    Json::Arr(t.iter().map(|x| Json::Str(format!("{:?}", x))).collect())
}

pub fn first_diff(a: &[Tok], b: &[Tok]) -> String {
    for i in 0..a.len().max(b.len()) {
        if a.get(i) != b.get(i) {
            return format!(
                "token {}: expected {:?} got {:?}",
                i,
                a.get(i),
                b.get(i)
            );
        }
    }
    "no difference".to_string()
}

pub fn program_json(lines: &[String]) -> Json {
    Json::Arr(lines.iter().map(|l| Json::Str(l.clone())).collect())
}

pub fn scenario(kind: &str, program: &[String]) -> crate::json::ObjBuilder {
    obj().set("kind", kind).set("program", program_json(program))
}

/// Does any executable statement follow position (line i, top-level statement j)?
pub fn code_follows(p: &Program, i: usize, j: usize) -> bool {
    let exec = |s: &Stmt| !matches!(s, Stmt::Rem(..) | Stmt::Data(_));
    if p.lines[i].stmts.iter().skip(j).any(exec) {
        return true;
    }
    p.lines.iter().skip(i + 1).any(|l| l.stmts.iter().any(exec))
}

/// Structural reductions of a program that keep line indices stable:
/// blank a line (REM), drop one top-level statement, drop trailing unreferenced lines.
pub fn shrink_program(p: &Program) -> Vec<Program> {
    let mut out = vec![];
    // drop the last line if nothing refers to it
    let n = p.lines.len();
    if n > 1 {
        let mut referenced = false;
        for l in &p.lines {
            walk_stmts(&l.stmts, &mut |s| {
                let mut s2 = s.clone();
                crate::gen::map_targets_stmt(&mut s2, &mut |t| {
                    if *t == Target::L(n - 1) {
                        referenced = true;
                    }
                });
            });
        }
        if !referenced {
            let mut q = p.clone();
            q.lines.pop();
            out.push(q);
        }
    }
    // blank whole lines, larger chunks first
    let mut chunk = n / 2;
    while chunk >= 1 {
        let mut start = 0;
        while start < n {
            let end = (start + chunk).min(n);
            let mut q = p.clone();
            let mut changed = false;
            for l in q.lines[start..end].iter_mut() {
                if !(l.stmts.len() == 1 && matches!(l.stmts[0], Stmt::Rem(..))) {
                    l.stmts = vec![Stmt::Rem(String::new(), false)];
                    changed = true;
                }
            }
            if changed {
                out.push(q);
            }
            start = end;
        }
        if chunk == 1 {
            break;
        }
        chunk /= 2;
    }
    // drop single top-level statements
    for i in 0..n {
        if p.lines[i].stmts.len() > 1 {
            for j in 0..p.lines[i].stmts.len() {
                let mut q = p.clone();
                q.lines[i].stmts.remove(j);
                // an IF must stay last on its line: removing never violates that
                out.push(q);
            }
        }
    }
    // simplify IF: replace by its then-branch / else-branch statements
    for i in 0..n {
        for j in 0..p.lines[i].stmts.len() {
            if let Stmt::If { then, els, .. } = &p.lines[i].stmts[j] {
                if let Branch::Stmts(v) = then {
                    let mut q = p.clone();
                    q.lines[i].stmts.splice(j..=j, v.clone());
                    out.push(q);
                }
                if let Some(Branch::Stmts(v)) = els {
                    let mut q = p.clone();
                    q.lines[i].stmts.splice(j..=j, v.clone());
                    out.push(q);
                }
                if els.is_some() {
                    let mut q = p.clone();
                    if let Stmt::If { els, .. } = &mut q.lines[i].stmts[j] {
                        *els = None;
                    }
                    out.push(q);
                }
            }
        }
    }
    // shorten PRINT lists
    for i in 0..n {
        for j in 0..p.lines[i].stmts.len() {
            if let Stmt::Print { items, .. } = &p.lines[i].stmts[j] {
                if items.len() > 1 {
                    for k in 0..items.len() {
                        let mut q = p.clone();
                        if let Stmt::Print { items, .. } = &mut q.lines[i].stmts[j] {
                            items.remove(k);
                            // two expressions must not become adjacent without a separator
                            let mut fixed = vec![];
                            let mut prev_e = false;
                            for it in items.drain(..) {
                                let is_e = matches!(it, PItem::E(_));
                                if is_e && prev_e {
                                    fixed.push(PItem::Semi);
                                }
                                prev_e = is_e;
                                fixed.push(it);
                            }
                            *items = fixed;
                        }
                        out.push(q);
                    }
                }
            }
        }
    }
    out
}
