//! The only source of randomness in the simulator: splitmix64-seeded
//! xoshiro256**. One `Rng` per simulated run, derived from
//! (VERIF_SEED, property id, run index).

#[derive(Clone, Debug)]
pub struct Rng {
    s: [u64; 4],
}

pub fn splitmix64(x: &mut u64) -> u64 {
    *x = x.wrapping_add(0x9E37_79B9_7F4A_7C15);
    let mut z = *x;
    z = (z ^ (z >> 30)).wrapping_mul(0xBF58_476D_1CE4_E5B9);
    z = (z ^ (z >> 27)).wrapping_mul(0x94D0_49BB_1331_11EB);
    z ^ (z >> 31)
}

pub fn fnv1a(bytes: &[u8]) -> u64 {
    let mut h: u64 = 0xcbf2_9ce4_8422_2325;
    for b in bytes {
        h ^= *b as u64;
        h = h.wrapping_mul(0x0100_0000_01b3);
    }
    h
}

impl Rng {
    pub fn new(seed: u64) -> Rng {
        let mut x = seed;
        let s = [
            splitmix64(&mut x),
            splitmix64(&mut x),
            splitmix64(&mut x),
            splitmix64(&mut x),
        ];
        Rng { s }
    }

    /// Generator for one run of one property.
    pub fn for_run(seed: u64, prop: &str, run: u64) -> Rng {
        let mut x = seed ^ fnv1a(prop.as_bytes()).rotate_left(17) ^ run.wrapping_mul(0xD6E8_FEB8_6659_FD93);
        let a = splitmix64(&mut x);
        Rng::new(a ^ run)
    }

    pub fn next_u64(&mut self) -> u64 {
        let result = self.s[1].wrapping_mul(5).rotate_left(7).wrapping_mul(9);
        let t = self.s[1] << 17;
        self.s[2] ^= self.s[0];
        self.s[3] ^= self.s[1];
        self.s[1] ^= self.s[2];
        self.s[0] ^= self.s[3];
        self.s[2] ^= t;
        self.s[3] = self.s[3].rotate_left(45);
        result
    }

    /// Uniform in 0..n (n > 0).
    pub fn below(&mut self, n: u64) -> u64 {
        debug_assert!(n > 0);
        // multiply-shift; bias is irrelevant here
        ((self.next_u64() as u128 * n as u128) >> 64) as u64
    }

    pub fn range(&mut self, lo: i64, hi: i64) -> i64 {
        debug_assert!(lo <= hi);
        lo + self.below((hi - lo + 1) as u64) as i64
    }

    pub fn usize(&mut self, n: usize) -> usize {
        self.below(n as u64) as usize
    }

    /// True with probability pct/100.
    pub fn pct(&mut self, pct: u32) -> bool {
        self.below(100) < pct as u64
    }

    pub fn one_in(&mut self, n: u64) -> bool {
        self.below(n) == 0
    }

    pub fn pick<'a, T>(&mut self, items: &'a [T]) -> &'a T {
        &items[self.usize(items.len())]
    }

    pub fn pick_weighted<'a, T>(&mut self, items: &'a [(u32, T)]) -> &'a T {
        let total: u64 = items.iter().map(|(w, _)| *w as u64).sum();
        let mut x = self.below(total.max(1));
        for (w, t) in items {
            if x < *w as u64 {
                return t;
            }
            x -= *w as u64;
        }
        &items[items.len() - 1].1
    }

    /// Geometric-ish small number: 0 with prob 1/2, 1 with 1/4, ... capped.
    pub fn geometric(&mut self, cap: u32) -> u32 {
        let mut n = 0;
        while n < cap && self.next_u64() & 1 == 1 {
            n += 1;
        }
        n
    }

    pub fn shuffle<T>(&mut self, v: &mut [T]) {
        for i in (1..v.len()).rev() {
            let j = self.usize(i + 1);
            v.swap(i, j);
        }
    }

    pub fn fork(&mut self) -> Rng {
        Rng::new(self.next_u64())
    }
}
