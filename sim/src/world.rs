//! The simulated world: one real `basic::mach::Runtime`, the terminal actor
//! (a stub of `term::main_loop`'s dispatch), the SimDisk, snapshot holders
//! and the event log. Single OS thread, no real clock, no real I/O.
//!
//! Everything that is a *choice* (quantum of every slice, interrupt instants,
//! replies, keys, entropy, clock) is an explicit argument, so a run is a pure
//! function of its arguments and the code under test.

use crate::prng::fnv1a;
use basic::mach::{Event, Listing, Runtime};
use basic::verif;
use std::cell::RefCell;
use std::collections::BTreeMap;
use std::panic::{catch_unwind, AssertUnwindSafe};

pub const DEFAULT_Q: u32 = 5000;
const ENTER_BUDGET: u64 = 3_000_000;
const MISC_BUDGET: u64 = 3_000_000;

thread_local! {
    static LAST_PANIC: RefCell<String> = const { RefCell::new(String::new()) };
}

/// Install a silent panic hook that remembers message and location.
pub fn install_panic_hook() {
    std::panic::set_hook(Box::new(|info| {
        let msg = if let Some(s) = info.payload().downcast_ref::<&str>() {
            s.to_string()
        } else if let Some(s) = info.payload().downcast_ref::<String>() {
            s.clone()
        } else {
            "<non-string panic>".to_string()
        };
        let loc = info
            .location()
            .map(|l| format!("{}:{}", l.file(), l.line()))
            .unwrap_or_default();
        LAST_PANIC.with(|p| *p.borrow_mut() = format!("{} @ {}", msg, loc));
    }));
}

/// VERIF_ECHO_LOG=1: every API call / event log line goes to stderr (debugging aid for `show`)
fn echo_log() -> bool {
    static ON: std::sync::OnceLock<bool> = std::sync::OnceLock::new();
    *ON.get_or_init(|| std::env::var("VERIF_ECHO_LOG").is_ok())
}

/// the interpreter's column belief must agree with the terminal's cursor whenever it reports or prompts
fn term_strict() -> bool {
    static ON: std::sync::OnceLock<bool> = std::sync::OnceLock::new();
    *ON.get_or_init(|| std::env::var("VERIF_TERM_STRICT").is_ok())
}

/// Counter names are `&'static str`; the few dozen dynamic ones (interrupt sites) are interned once.
fn intern(s: &str) -> &'static str {
    thread_local! {
        static NAMES: RefCell<BTreeMap<String, &'static str>> = const { RefCell::new(BTreeMap::new()) };
    }
    NAMES.with(|n| {
        let mut n = n.borrow_mut();
        if let Some(x) = n.get(s) {
            return *x;
        }
        let leaked: &'static str = Box::leak(s.to_string().into_boxed_str());
        n.insert(s.to_string(), leaked);
        leaked
    })
}

pub fn last_panic() -> String {
    LAST_PANIC.with(|p| p.borrow().clone())
}

#[derive(Clone, Debug, PartialEq)]
pub struct ErrInfo {
    pub text: String,
    pub line: Option<u16>,
    pub col: (usize, usize),
}

#[derive(Clone, Debug, PartialEq)]
pub enum Ev {
    /// operator typed a line at the prompt
    Entered(String),
    Print(String),
    Errors(Vec<ErrInfo>),
    Input(String, bool),
    Reply(String),
    List(String, Vec<(usize, usize)>),
    Cls,
    Inkey,
    Key(String),
    Load(String),
    RunFile(String),
    Save(String),
    /// the terminal printed an error of its own (file not found ...)
    TermError(String),
    /// the line break the interpreter forces in front of an error report when the
    /// cursor is not at column 0
    ForcedNl,
    /// Runtime::interrupt() was called
    Break,
    Stopped,
}

/// When an interrupt is delivered, relative to the line being executed.
#[derive(Clone, Debug, PartialEq, Eq, PartialOrd, Ord)]
pub enum When {
    /// while stopped at the prompt, before the line is typed
    AtPrompt,
    /// after exactly n VM instructions of this line (0 = before the first slice)
    Instr(u64),
    /// before the k-th execute() call of this line (reaches non-instruction states)
    Slice(u64),
    /// instead of answering the k-th Input request (what the shipped UI does on Ctrl-C)
    AtInput(usize),
    /// right after the k-th reply was entered, before the next slice
    AfterReply(usize),
    /// right after the k-th List event
    AfterList(usize),
    /// while the k-th Inkey request is pending (library protocol only)
    AtInkey(usize),
}

#[derive(Clone, Debug)]
pub struct LineIo {
    pub replies: Vec<String>,
    pub keys: Vec<String>,
    pub intrs: Vec<When>,
    /// instruction budget of this line; when exceeded the operator presses Ctrl-C once
    pub max_instr: u64,
    /// when the replies are used up start again with the first (very long dialogues)
    pub cycle_replies: bool,
    /// the host loads a file by itself (not in answer to a LOAD statement) once the line has executed
    /// this many instructions: (instruction count, file name, run it)
    pub host_load: Option<(u64, String, bool)>,
    /// the host loads a file by itself right after the k-th List event of this line, i.e. while the
    /// runtime is in the middle of a listing: (k, file name)
    pub host_load_after_list: Option<(usize, String)>,
    /// upper bound on execute() calls for this line (0 = derived from max_instr); for lines whose
    /// work is not counted in instructions (LIST)
    pub max_slices: u64,
}

impl Default for LineIo {
    fn default() -> Self {
        LineIo {
            replies: vec![],
            keys: vec![],
            intrs: vec![],
            max_instr: 200_000,
            cycle_replies: false,
            host_load: None,
            host_load_after_list: None,
            max_slices: 0,
        }
    }
}

impl LineIo {
    pub fn budget(n: u64) -> LineIo {
        LineIo {
            max_instr: n,
            ..Default::default()
        }
    }
}

#[derive(Clone, Debug, Default)]
pub struct LineOut {
    pub ev_start: usize,
    pub ev_end: usize,
    pub instr: u64,
    pub slices: u64,
    /// the budget interrupt was needed
    pub budget_hit: bool,
    /// how many of io.intrs were delivered
    pub intr_fired: usize,
    /// Input requests that found no reply (operator pressed Ctrl-C)
    pub input_abandoned: usize,
}

#[derive(Clone, Debug)]
pub struct Fatal {
    pub tag: String,
    pub detail: String,
    /// class of the session history at the moment of the failure ("" = ordinary): known findings
    /// are tied to it, so that the same crash site reached by another kind of history is reported
    pub history: &'static str,
}

#[derive(Clone, Debug)]
pub struct Sched {
    pub quanta: Vec<u32>,
    pub pos: usize,
    pub default_q: u32,
}

impl Sched {
    pub fn fixed(q: u32) -> Sched {
        Sched {
            quanta: vec![],
            pos: 0,
            default_q: q,
        }
    }
    pub fn list(quanta: Vec<u32>, default_q: u32) -> Sched {
        Sched {
            quanta,
            pos: 0,
            default_q,
        }
    }
    fn next(&mut self) -> u32 {
        let q = if self.pos < self.quanta.len() {
            self.quanta[self.pos]
        } else {
            self.default_q
        };
        self.pos += 1;
        q.max(1)
    }
}

#[derive(Clone, Debug, Default)]
pub struct Stats {
    pub counters: BTreeMap<&'static str, u64>,
}

impl Stats {
    pub fn bump(&mut self, k: &'static str) {
        *self.counters.entry(k).or_insert(0) += 1;
    }
    pub fn add(&mut self, k: &'static str, n: u64) {
        *self.counters.entry(k).or_insert(0) += n;
    }
    pub fn merge(&mut self, other: &Stats) {
        for (k, v) in &other.counters {
            *self.counters.entry(k).or_insert(0) += v;
        }
    }
    pub fn get(&self, k: &str) -> u64 {
        self.counters.get(k).copied().unwrap_or(0)
    }
}

pub struct World {
    pub rt: Runtime,
    pub events: Vec<Ev>,
    pub sched: Sched,
    pub fatal: Option<Fatal>,
    pub stats: Stats,
    /// the terminal's own cursor column
    pub true_col: usize,
    pub disk: BTreeMap<String, Vec<String>>,
    pub snaps: Vec<Option<(Listing, String)>>,
    /// since the last line that resets the value stack (RUN, NEW, CLEAR, LOAD, an edit): a runtime
    /// error was reported / a direct line with FOR, GOSUB or WHILE was typed
    error_since_reset: bool,
    direct_frames_since_reset: bool,
    /// CONT was typed in such a history: it resumes on a value stack that holds the residue of a
    /// failed statement or frames of a direct statement (the history class of two C03 findings)
    pub cont_on_foreign_stack: bool,
    /// fault knob: every Ctrl-C calls `interrupt()` twice before the next `execute()`
    pub double_intr: bool,
    /// session knob: after a break at a pending INPUT prompt `run_to_completion` resumes with
    /// `PRINT "AGAIN: ";:CONT` instead of a bare CONT
    pub cont_behind_print: bool,
    /// global API call sequence number
    pub seq: u64,
    pub log_hash: u64,
    pub log: Option<Vec<String>>,
    /// simulated microseconds
    pub sim_us: u64,
    pub total_instr: u64,
    /// distinct (state, next opcode) pairs at which interrupts landed
    pub intr_sites: Vec<String>,
    /// whether the last interrupt() found the pc inside the stored program
    pub last_intr_in_program: bool,
    /// the terminal's cursor column when the last interrupt() was delivered
    pub last_intr_col: usize,
    /// "state/next opcode" at the last interrupt()
    pub last_intr_site: String,
    /// stops (break reports, prompts) that found the cursor mid-line and forced a line break
    pub midline_stops: u64,
    /// very long runs: Print events are counted and hashed but not stored (only the last few, in `tail`)
    pub quiet: bool,
    /// the last interrupt was delivered instead of a reply to a pending Input request
    pub intr_at_input_wait: bool,
    pub tail: std::collections::VecDeque<String>,
    pub quiet_prints: u64,
    pub quiet_hash: u64,
}

pub fn render_listing(l: &Listing) -> String {
    let mut s = String::new();
    for line in l.lines() {
        s.push_str(&line.to_string());
        s.push('\n');
    }
    s
}

fn err_infos(errors: &[basic::lang::Error]) -> Vec<ErrInfo> {
    let mut v: Vec<ErrInfo> = errors
        .iter()
        .map(|e| {
            let c = e.column();
            ErrInfo {
                text: e.to_string(),
                line: e.line_number(),
                col: (c.start, c.end),
            }
        })
        .collect();
    // The linker reports in HashMap iteration order; neutralise it.
    v.sort_by(|a, b| (a.line, a.col, &a.text).cmp(&(b.line, b.col, &b.text)));
    v
}

impl ErrInfo {
    /// Compile-time diagnostics carry a column ("?UNDEFINED LINE IN 30:9"); runtime errors do not.
    pub fn has_column(&self) -> bool {
        if let Some(i) = self.text.find(" IN ") {
            let rest = &self.text[i + 4..];
            let digits: String = rest.chars().take_while(|c| c.is_ascii_digit()).collect();
            !digits.is_empty() && rest[digits.len()..].starts_with(':')
        } else {
            false
        }
    }
}

impl World {
    pub fn new(sched: Sched, entropy: u64, keep_log: bool) -> World {
        verif::set_entropy(entropy);
        verif::set_clock("01-02-1985", "03:04:05");
        World {
            rt: Runtime::default(),
            events: vec![],
            sched,
            fatal: None,
            stats: Stats::default(),
            true_col: 0,
            disk: BTreeMap::new(),
            snaps: vec![],
            error_since_reset: false,
            direct_frames_since_reset: false,
            cont_on_foreign_stack: false,
            double_intr: false,
            cont_behind_print: false,
            seq: 0,
            log_hash: 0xcbf2_9ce4_8422_2325,
            log: if keep_log { Some(vec![]) } else { None },
            sim_us: 0,
            total_instr: 0,
            intr_sites: vec![],
            last_intr_in_program: false,
            last_intr_col: 0,
            last_intr_site: String::new(),
            midline_stops: 0,
            quiet: false,
            intr_at_input_wait: false,
            tail: std::collections::VecDeque::new(),
            quiet_prints: 0,
            quiet_hash: 0xcbf2_9ce4_8422_2325,
        }
    }

    /// A world that has printed its banner and sits at the first prompt.
    pub fn booted(sched: Sched, entropy: u64, keep_log: bool) -> World {
        let mut w = World::new(sched, entropy, keep_log);
        w.boot();
        w
    }

    fn note(&mut self, s: String) {
        self.seq += 1;
        let line = format!("#{} t={} {}", self.seq, self.sim_us, s);
        self.log_hash = (self.log_hash ^ fnv1a(line.as_bytes())).wrapping_mul(0x0100_0000_01b3);
        if echo_log() {
            eprintln!("{}", line);
        }
        if let Some(l) = &mut self.log {
            l.push(line);
        }
    }

    pub fn fail(&mut self, tag: &str, detail: String) {
        if self.fatal.is_none() {
            self.note(format!("FATAL {} {}", tag, detail));
            self.fatal = Some(Fatal {
                tag: tag.to_string(),
                detail,
                history: if self.cont_on_foreign_stack { "cont-on-foreign-stack" } else { "" },
            });
        }
    }

    fn guarded<T>(&mut self, what: &str, budget: u64, f: impl FnOnce(&mut Runtime) -> T) -> Option<T> {
        if self.fatal.is_some() {
            return None;
        }
        verif::set_budget(budget);
        let rt = &mut self.rt;
        let r = catch_unwind(AssertUnwindSafe(|| f(rt)));
        verif::set_budget(0);
        match r {
            Ok(v) => Some(v),
            Err(_) => {
                let msg = last_panic();
                if msg.contains(verif::FUEL_PANIC) {
                    let site = msg
                        .split("site=")
                        .nth(1)
                        .and_then(|s| s.split_whitespace().next())
                        .unwrap_or("?")
                        .to_string();
                    self.fail(&format!("hang:{}:site{}", what, site), msg);
                } else {
                    self.fail(&format!("panic:{}", what), msg);
                }
                None
            }
        }
    }

    pub fn boot(&mut self) {
        for _ in 0..8 {
            match self.slice(DEFAULT_Q) {
                Some(Event::Stopped) => {
                    self.events.push(Ev::Stopped);
                    return;
                }
                Some(Event::Print(s)) => self.on_print(s),
                Some(_) => {}
                None => return,
            }
        }
        self.fail("boot", "no prompt after start".into());
    }

    fn on_print(&mut self, s: String) {
        for ch in s.chars() {
            if ch == '\n' {
                self.true_col = 0
            } else {
                self.true_col += 1
            }
        }
        if self.quiet {
            self.quiet_prints += 1;
            self.quiet_hash = (self.quiet_hash ^ fnv1a(s.as_bytes())).wrapping_mul(0x0100_0000_01b3);
            if self.tail.len() >= 8 {
                self.tail.pop_front();
            }
            self.tail.push_back(s);
            return;
        }
        self.events.push(Ev::Print(s));
    }

    /// One execute(q) call with the bounded-slice invariant.
    fn slice(&mut self, q: u32) -> Option<Event> {
        let before = verif::site_count(verif::SITE_EXEC);
        let budget = 80_000 + 8 * q as u64;
        let ev = self.guarded("execute", budget, |rt| rt.execute(q as usize))?;
        let delta = verif::site_count(verif::SITE_EXEC) - before;
        self.total_instr += delta;
        self.sim_us += delta;
        let d = match &ev {
            Event::Errors(e) => format!("Errors({:?})", err_infos(e).iter().map(|x| x.text.clone()).collect::<Vec<_>>()),
            Event::Input(p, c) => format!("Input({:?},{})", p, c),
            Event::Print(s) => format!("Print({:?})", s),
            Event::List((s, c)) => {
                // underlined ranges come in the linker's hash order: neutralise it
                let mut c: Vec<(usize, usize)> = c.iter().map(|r| (r.start, r.end)).collect();
                c.sort();
                format!("List({:?},{:?})", s, c)
            }
            Event::Running => "Running".to_string(),
            Event::Stopped => "Stopped".to_string(),
            Event::Load(s) => format!("Load({:?})", s),
            Event::Run(s) => format!("Run({:?})", s),
            Event::Save(s) => format!("Save({:?})", s),
            Event::Cls => "Cls".to_string(),
            Event::Inkey => "Inkey".to_string(),
        };
        self.note(format!("execute({}) +{} -> {}", q, delta, d));
        if delta > q as u64 {
            self.fail(
                "slice-overrun",
                format!("execute({}) ran {} instructions", q, delta),
            );
            return None;
        }
        Some(ev)
    }

    pub fn interrupt(&mut self) {
        let p = self.rt.verif_probe();
        let site = format!("{}/{}", p.state, if p.state == "Running" || p.state == "InputRunning" { p.next_opcode.as_str() } else { "-" });
        if !self.intr_sites.contains(&site) {
            self.intr_sites.push(site.clone());
        }
        // reach measure: how often an interrupt landed in each (state, next opcode) situation
        self.stats.bump(intern(&format!("intr.site.{}", site)));
        self.last_intr_site = site;
        self.last_intr_in_program = p.in_program;
        self.last_intr_col = self.true_col;
        if p.in_program && p.state == "Running" {
            self.stats.bump("intr.in_program");
            // temporaries = stack values that are not frame markers/frame payload; approximated
            // by "the next opcode consumes stack values"
        }
        match p.state {
            "Running" => self.stats.bump("intr.state.Running"),
            "Input" => self.stats.bump("intr.state.Input"),
            "InputRedo" => self.stats.bump("intr.state.InputRedo"),
            "InputRunning" => self.stats.bump("intr.state.InputRunning"),
            "Inkey" => self.stats.bump("intr.state.Inkey"),
            "Listing" => self.stats.bump("intr.state.Listing"),
            "RuntimeError" => self.stats.bump("intr.state.RuntimeError"),
            "Stopped" => self.stats.bump("intr.state.Stopped"),
            "Intro" => self.stats.bump("intr.state.Intro"),
            _ => self.stats.bump("intr.state.other"),
        }
        self.intr_at_input_wait = p.state == "Input";
        if self.intr_at_input_wait {
            // Ctrl-C at a pending INPUT prompt: the line editor gives the line up and the cursor
            // goes to the start of a fresh line (the interpreter assumes so as well)
            self.true_col = 0;
        }
        self.stats.bump("fault.interrupt");
        self.note("interrupt()".to_string());
        self.guarded("interrupt", MISC_BUDGET, |rt| rt.interrupt());
        if self.double_intr {
            // the signal is delivered twice before the next slice (the handler's flag and the line
            // editor's own report): one break, not two
            self.stats.bump("fault.interrupt_delivered_twice");
            self.note("interrupt() [again]".to_string());
            self.guarded("interrupt", MISC_BUDGET, |rt| rt.interrupt());
        }
        self.events.push(Ev::Break);
    }

    fn enter_raw(&mut self, what: &'static str, s: &str) {
        self.note(format!("enter[{}]({:?})", what, s));
        self.sim_us += 50_000 * (s.chars().count() as u64 + 1);
        self.guarded("enter", ENTER_BUDGET, |rt| rt.enter(s));
    }

    /// Type one line at the prompt and run the terminal loop until the next prompt.
    pub fn line(&mut self, text: &str, io: &LineIo) -> LineOut {
        let mut out = LineOut {
            ev_start: self.events.len(),
            ..Default::default()
        };
        if self.fatal.is_some() {
            out.ev_end = self.events.len();
            return out;
        }
        if io.intrs.contains(&When::AtPrompt) {
            self.interrupt();
            out.intr_fired += 1;
            self.drain(&mut out, io, true);
            if self.fatal.is_some() {
                out.ev_end = self.events.len();
                return out;
            }
        }
        self.events.push(Ev::Entered(text.to_string()));
        self.true_col = 0;
        self.classify_history(text);
        self.enter_raw("line", text);
        self.drain(&mut out, io, false);
        out.ev_end = self.events.len();
        out
    }

    /// History class bookkeeping for the known findings (see `Fatal::history`).
    fn classify_history(&mut self, text: &str) {
        let t = text.trim_start().to_ascii_uppercase();
        let resets = t.starts_with(|c: char| c.is_ascii_digit())
            || t.starts_with("RUN")
            || t.starts_with("NEW")
            || t.starts_with("CLEAR")
            || t.starts_with("LOAD");
        if resets {
            self.error_since_reset = false;
            self.direct_frames_since_reset = false;
            self.cont_on_foreign_stack = false;
            return;
        }
        if t.contains("FOR") || t.contains("GOSUB") || t.contains("WHILE") || t.contains("GO SUB") {
            self.direct_frames_since_reset = true;
        }
        if t.contains("CONT") && (self.error_since_reset || self.direct_frames_since_reset) {
            self.cont_on_foreign_stack = true;
        }
    }

    /// Load a file the way the UI services `Event::Load`/`Event::Run`.
    fn service_load(&mut self, name: &str, run: bool) {
        let lines = match self.disk.get(name) {
            Some(l) => l.clone(),
            None => {
                self.stats.bump("disk.not_found");
                self.term_error("?FILE NOT FOUND".to_string());
                return;
            }
        };
        self.stats.bump("disk.load");
        let mut listing = Listing::default();
        let mut err: Option<String> = None;
        let r = {
            let listing_ref = &mut listing;
            let err_ref = &mut err;
            self.guarded("load_str", MISC_BUDGET, move |_rt| {
                for (i, l) in lines.iter().enumerate() {
                    if let Err(e) = listing_ref.load_str(l) {
                        *err_ref = Some(format!("{}; In line {} of the file.", e, i + 1));
                        break;
                    }
                }
            })
        };
        if r.is_none() {
            return;
        }
        if let Some(e) = err {
            self.term_error(e);
            return;
        }
        self.note(format!("set_listing({:?},{})", name, run));
        self.guarded("set_listing", ENTER_BUDGET, move |rt| rt.set_listing(listing, run));
    }

    fn term_error(&mut self, s: String) {
        self.true_col = 0;
        self.events.push(Ev::TermError(s));
    }

    fn drain(&mut self, out: &mut LineOut, io: &LineIo, after_prompt_intr: bool) {
        let mut instr_targets: Vec<u64> = io
            .intrs
            .iter()
            .filter_map(|w| if let When::Instr(n) = w { Some(*n) } else { None })
            .collect();
        instr_targets.sort();
        let slice_targets: Vec<u64> = io
            .intrs
            .iter()
            .filter_map(|w| if let When::Slice(n) = w { Some(*n) } else { None })
            .collect();
        if after_prompt_intr {
            instr_targets.clear();
        }
        let mut replies = io.replies.iter();
        let mut keys = io.keys.iter();
        let mut inputs_seen = 0usize;
        let mut replies_given = 0usize;
        let mut lists_seen = 0usize;
        let mut inkeys_seen = 0usize;
        let mut since_intr: Option<u32> = if after_prompt_intr { Some(0) } else { None };
        let mut instr: u64 = 0;
        let mut slices: u64 = 0;
        let mut budget_fired = false;
        let mut host_loaded = false;
        let hard_cap = if io.max_slices > 0 { io.max_slices } else { io.max_instr.saturating_mul(2) + 200_000 };
        loop {
            if self.fatal.is_some() {
                break;
            }
            if !after_prompt_intr {
                while let Some(&n) = instr_targets.first() {
                    if instr >= n {
                        instr_targets.remove(0);
                        self.interrupt();
                        out.intr_fired += 1;
                        since_intr = Some(0);
                    } else {
                        break;
                    }
                }
                if slice_targets.contains(&slices) {
                    self.interrupt();
                    out.intr_fired += 1;
                    since_intr = Some(0);
                }
            }
            if let Some((k, name, run)) = &io.host_load {
                if !host_loaded && instr >= *k {
                    host_loaded = true;
                    self.stats.bump("fault.host_load_during_run");
                    self.events.push(Ev::Load(format!("(host) {}", name)));
                    self.service_load(name, *run);
                }
            }
            let mut q = self.sched.next();
            if let Some((k, _, _)) = &io.host_load {
                if !host_loaded {
                    q = q.min((*k - instr).min(u32::MAX as u64) as u32).max(1);
                }
            }
            if let Some(&n) = instr_targets.first() {
                q = q.min((n - instr).min(u32::MAX as u64) as u32).max(1);
            }
            if !budget_fired {
                if instr >= io.max_instr {
                    budget_fired = true;
                    out.budget_hit = true;
                    self.stats.bump("budget.interrupt");
                    self.interrupt();
                    since_intr = Some(0);
                } else {
                    q = q.min((io.max_instr - instr).min(u32::MAX as u64) as u32).max(1);
                }
            }
            let before = self.total_instr;
            let ev = match self.slice(q) {
                Some(ev) => ev,
                None => break,
            };
            instr += self.total_instr - before;
            slices += 1;
            if let Some(c) = since_intr.as_mut() {
                *c += 1;
                if *c > 4 && !matches!(ev, Event::Stopped) {
                    self.fail(
                        "no-stop-after-interrupt",
                        format!("{} execute() calls after interrupt() without reaching the prompt", c),
                    );
                    break;
                }
            }
            if slices > hard_cap {
                self.fail("wedged", format!("{} slices without reaching the prompt", slices));
                break;
            }
            match ev {
                Event::Stopped => {
                    self.events.push(Ev::Stopped);
                    break;
                }
                Event::Running => {}
                Event::Print(s) => {
                    if s == "\n" && self.rt.verif_error_pending() {
                        self.true_col = 0;
                        self.midline_stops += 1;
                        self.events.push(Ev::ForcedNl);
                    } else {
                        if s == "\nREADY.\n" {
                            self.midline_stops += 1;
                            if self.true_col == 0 {
                                self.stats.bump("term.prompt_forced_line_break_at_column_0");
                            }
                        } else if s == "READY.\n" && self.true_col != 0 {
                            self.stats.bump("term.prompt_without_line_break_mid_line");
                        }
                        self.on_print(s)
                    }
                }
                Event::Errors(e) => {
                    if self.true_col != 0 {
                        self.stats.bump("term.error_report_not_at_column_0");
                        // a ?BREAK report is always put on a line of its own: the interpreter breaks the
                        // line first when its column counter says the cursor is mid-line. Arriving
                        // mid-line means the counter and the terminal's cursor disagree (C11's column
                        // clause) or the line break was skipped.
                        let all_break = !e.is_empty() && e.iter().all(|x| x.to_string().starts_with("?BREAK"));
                        if all_break {
                            let col = self.true_col;
                            self.fail("break-report-mid-line", format!("?BREAK was reported with the cursor at column {} (no line break in front of it)", col));
                        }
                        if term_strict() {
                            let col = self.true_col;
                            self.fail("column-belief:error-report-mid-line", format!("an error report arrived with the cursor at column {}", col));
                        }
                    }
                    self.true_col = 0;
                    if e.iter().any(|x| !x.to_string().starts_with("?BREAK")) {
                        self.error_since_reset = true;
                    }
                    self.events.push(Ev::Errors(err_infos(&e)));
                }
                Event::List((s, cols)) => {
                    self.true_col = 0;
                    let mut cols: Vec<(usize, usize)> = cols.iter().map(|c| (c.start, c.end)).collect();
                    cols.sort();
                    self.events.push(Ev::List(s, cols));
                    if io.intrs.contains(&When::AfterList(lists_seen)) {
                        self.interrupt();
                        out.intr_fired += 1;
                        since_intr = Some(0);
                    }
                    if let Some((k, name)) = &io.host_load_after_list {
                        if *k == lists_seen {
                            self.stats.bump("fault.host_load_during_list");
                            self.events.push(Ev::Load(format!("(host) {}", name)));
                            self.service_load(name, false);
                        }
                    }
                    lists_seen += 1;
                }
                Event::Cls => {
                    self.true_col = 0;
                    self.events.push(Ev::Cls);
                }
                Event::Input(prompt, caps) => {
                    self.true_col += prompt.chars().count();
                    self.events.push(Ev::Input(prompt, caps));
                    let k = inputs_seen;
                    inputs_seen += 1;
                    if io.intrs.contains(&When::AtInput(k)) {
                        self.interrupt();
                        out.intr_fired += 1;
                        since_intr = Some(0);
                    } else if let Some(r) = match replies.next() {
                        Some(r) => Some(r),
                        None if io.cycle_replies && !io.replies.is_empty() => {
                            replies = io.replies.iter();
                            replies.next()
                        }
                        None => None,
                    } {
                        self.events.push(Ev::Reply(r.clone()));
                        self.true_col = 0;
                        self.enter_raw("reply", r);
                        if io.intrs.contains(&When::AfterReply(replies_given)) {
                            self.interrupt();
                            out.intr_fired += 1;
                            since_intr = Some(0);
                        }
                        replies_given += 1;
                    } else {
                        out.input_abandoned += 1;
                        self.stats.bump("input.abandoned");
                        self.interrupt();
                        since_intr = Some(0);
                    }
                }
                Event::Inkey => {
                    self.events.push(Ev::Inkey);
                    let k = inkeys_seen;
                    inkeys_seen += 1;
                    if io.intrs.contains(&When::AtInkey(k)) {
                        self.interrupt();
                        out.intr_fired += 1;
                        since_intr = Some(0);
                    } else {
                        let key = keys.next().cloned().unwrap_or_default();
                        self.events.push(Ev::Key(key.clone()));
                        self.enter_raw("key", &key);
                    }
                }
                Event::Load(name) => {
                    self.events.push(Ev::Load(name.clone()));
                    self.service_load(&name, false);
                }
                Event::Run(name) => {
                    self.events.push(Ev::RunFile(name.clone()));
                    self.service_load(&name, true);
                }
                Event::Save(name) => {
                    self.events.push(Ev::Save(name.clone()));
                    self.stats.bump("disk.save");
                    let mut text: Vec<String> = vec![];
                    let t = &mut text;
                    self.guarded("save", MISC_BUDGET, move |rt| {
                        let l = rt.get_listing();
                        for line in l.lines() {
                            t.push(line.to_string());
                        }
                    });
                    if text.is_empty() {
                        self.term_error("?INTERNAL ERROR; NOTHING TO SAVE".to_string());
                    } else {
                        self.disk.insert(name, text);
                    }
                }
            }
        }
        out.instr += instr;
        out.slices += slices;
    }

    // ---- snapshot holders -------------------------------------------------

    pub fn listing_text(&mut self) -> String {
        let mut s = String::new();
        let r = &mut s;
        self.guarded("get_listing", MISC_BUDGET, move |rt| {
            *r = render_listing(&rt.get_listing());
        });
        s
    }

    pub fn snap_take(&mut self) -> usize {
        self.stats.bump("snapshot.taken");
        let mut got: Option<(Listing, String)> = None;
        let g = &mut got;
        self.note("get_listing() [held]".to_string());
        self.guarded("get_listing", MISC_BUDGET, move |rt| {
            let l = rt.get_listing();
            let t = render_listing(&l);
            *g = Some((l, t));
        });
        self.snaps.push(got);
        self.snaps.len() - 1
    }

    /// Re-read a held snapshot; it must render what it rendered when taken.
    pub fn snap_check(&mut self, i: usize) -> bool {
        let (l, t) = match self.snaps.get(i) {
            Some(Some(x)) => (x.0.clone(), x.1.clone()),
            _ => return true,
        };
        let mut now = String::new();
        let n = &mut now;
        self.guarded("snapshot-read", MISC_BUDGET, move |_| {
            *n = render_listing(&l);
        });
        self.stats.bump("snapshot.reread");
        if self.fatal.is_none() && now != t {
            self.fail(
                "snapshot-changed",
                format!("held snapshot rendered {:?} when taken and {:?} now", t, now),
            );
            return false;
        }
        true
    }

    /// The host hands a held snapshot back to the runtime (`set_listing(snapshot, false)`): an
    /// "undo" a front end may offer. Returns false when the slot is empty.
    pub fn snap_restore(&mut self, i: usize) -> bool {
        let l = match self.snaps.get(i) {
            Some(Some(x)) => x.0.clone(),
            _ => return false,
        };
        self.stats.bump("snapshot.restored");
        self.note(format!("set_listing(snapshot {}, false)", i));
        self.guarded("set_listing", ENTER_BUDGET, move |rt| rt.set_listing(l, false));
        true
    }

    pub fn snap_drop(&mut self, i: usize) {
        if let Some(s) = self.snaps.get_mut(i) {
            *s = None;
        }
    }

    pub fn snaps_alive(&self) -> usize {
        self.snaps.iter().filter(|s| s.is_some()).count()
    }

    /// What TAB completion would offer for line n.
    pub fn tab(&mut self, n: usize) -> Option<String> {
        self.stats.bump("snapshot.tab");
        let mut res: Option<String> = None;
        let r = &mut res;
        self.guarded("tab", MISC_BUDGET, move |rt| {
            let l = rt.get_listing();
            *r = l.line(n).map(|(s, _)| s);
        });
        res
    }

    // ---- transcript helpers -------------------------------------------------

    pub fn text_of(&self, range: std::ops::Range<usize>) -> String {
        render_events(&self.events[range])
    }

    pub fn out_text(&self, o: &LineOut) -> String {
        render_events(&self.events[o.ev_start..o.ev_end])
    }
}

/// The screen text of a slice of events, without the operator's own typing
/// at the prompt (replies to INPUT are included: they are part of the dialogue).
pub fn render_events(evs: &[Ev]) -> String {
    let mut s = String::new();
    for e in evs {
        match e {
            Ev::Entered(_) | Ev::Stopped | Ev::Inkey | Ev::Key(_) | Ev::Break => {}
            Ev::Print(p) => s.push_str(p),
            Ev::ForcedNl => s.push('\n'),
            Ev::Errors(v) => {
                for e in v {
                    s.push_str(&e.text);
                    s.push('\n');
                }
            }
            Ev::Input(p, caps) => {
                s.push_str(p);
                if !*caps {
                    s.push_str("{nocaps}");
                }
            }
            Ev::Reply(r) => {
                s.push_str(r);
                s.push('\n');
            }
            Ev::List(l, _) => {
                s.push_str(l);
                s.push('\n');
            }
            Ev::Cls => s.push_str("{CLS}"),
            Ev::Load(n) => s.push_str(&format!("{{LOAD {}}}", n)),
            Ev::RunFile(n) => s.push_str(&format!("{{RUN {}}}", n)),
            Ev::Save(n) => s.push_str(&format!("{{SAVE {}}}", n)),
            Ev::TermError(t) => {
                s.push_str(t);
                s.push('\n');
            }
        }
    }
    s
}
