//! Seeded generator of terminating, structured BASIC programs (as ASTs).
//!
//! Termination by construction: FOR bounds are small literals, WHILE and
//! backward-GOTO loops are guarded by dedicated strictly decreasing counters,
//! GOSUB is acyclic except for depth-guarded self recursion.

use crate::ast::*;
use crate::prng::Rng;

/// Which family of statements a workload over-samples.
#[derive(Clone, Copy, Debug, PartialEq, Eq)]
pub enum Emph {
    None,
    Data,
    Fn,
    Print,
    Input,
}

#[derive(Clone, Debug)]
pub struct GenCfg {
    pub emph: Emph,
    pub size: usize,
    pub input: bool,
    pub data: bool,
    pub fns: bool,
    pub tron: bool,
    pub stop: bool,
    pub end_mid: bool,
    pub arrays: bool,
    pub whiles: bool,
    pub on: bool,
    pub gosub: bool,
    pub fors: bool,
    pub back_goto: bool,
    pub strings: bool,
    pub layout: bool,
    pub errors: bool,
    pub swap_mid: bool,
    pub doubles: bool,
    pub deftype: bool,
    pub rems: bool,
    pub inkey: bool,
    pub rnd: bool,
    pub early_exit: bool,
    pub q_spelling: bool,
    pub line_start: u16,
    pub line_step: u16,
    pub irregular: bool,
    /// move the program up so that its last line is 65529, the highest legal line number
    pub top_line: bool,
}

impl GenCfg {
    /// Swarm-style: every feature switched on or off per run.
    pub fn swarm(rng: &mut Rng) -> GenCfg {
        let size = *rng.pick(&[3usize, 5, 8, 12, 18, 25]);
        GenCfg {
            emph: Emph::None,
            size,
            input: rng.pct(35),
            data: rng.pct(45),
            fns: rng.pct(35),
            tron: rng.pct(20),
            stop: rng.pct(25),
            end_mid: rng.pct(20),
            arrays: rng.pct(50),
            whiles: rng.pct(50),
            on: rng.pct(50),
            gosub: rng.pct(60),
            fors: rng.pct(75),
            back_goto: rng.pct(40),
            strings: rng.pct(65),
            layout: rng.pct(40),
            errors: rng.pct(20),
            swap_mid: rng.pct(30),
            doubles: rng.pct(20),
            deftype: rng.pct(8),
            rems: rng.pct(40),
            inkey: false,
            rnd: false,
            early_exit: rng.pct(30),
            q_spelling: false,
            line_start: *rng.pick(&[0u16, 1, 5, 10, 10, 10, 100, 1000]),
            line_step: *rng.pick(&[1u16, 2, 5, 10, 10, 10, 20, 100]),
            irregular: rng.pct(30),
            top_line: false,
        }
        .with_top_line()
    }

    /// About 3% of the configurations (derived from draws already made, so that every other program of a
    /// seed is unchanged) end on line 65529.
    fn with_top_line(mut self) -> GenCfg {
        self.top_line = self.line_start == 1000 && self.line_step <= 2;
        self
    }

    /// Everything that makes transcripts depend on the cursor column switched off.
    pub fn without_layout(mut self) -> GenCfg {
        self.layout = false;
        self
    }
}

struct Draft {
    label: Option<usize>,
    stmts: Vec<Stmt>,
}

const INT_VARS: &[&str] = &["N%", "M%", "P%", "Q%"];
const SNG_VARS: &[&str] = &["A", "B", "C", "G"];
const DBL_VARS: &[&str] = &["U#", "V#"];
const STR_VARS: &[&str] = &["S$", "T$", "Z$"];
const LOOP_VARS: &[&str] = &["I%", "J%", "K%", "X", "Y"];

pub struct Gen<'a> {
    rng: &'a mut Rng,
    pub cfg: GenCfg,
    labels: usize,
    active_loops: Vec<String>,
    counters: usize,
    arrays: Vec<(String, Ty, Vec<i16>, bool)>, // name, type, dims, declared by DIM
    data_types: Vec<Ty>,
    fns: Vec<(Var, Vec<Ty>, Ty)>,
    /// parameter names of `fns`, same order
    fn_params: Vec<Vec<Var>>,
    subs: Vec<usize>, // labels of subroutines
    sub_bodies: Vec<Vec<Draft>>,
    stops: usize,
    restarts: usize,
    planted: bool,
    depth_guard_used: bool,
    tron_on: bool,
    in_sub: usize,
    /// extra scalar names usable in expressions (FN parameters while generating a body)
    params: Vec<(String, Ty)>,
}

pub fn map_targets_stmt(s: &mut Stmt, f: &mut dyn FnMut(&mut Target)) {
    match s {
        Stmt::Goto(t) | Stmt::Gosub(t) => f(t),
        Stmt::OnGoto(_, ts) | Stmt::OnGosub(_, ts) => {
            for t in ts {
                f(t)
            }
        }
        Stmt::Restore(Some(t)) | Stmt::Run(Some(t)) | Stmt::FromCmd(_, t) => f(t),
        Stmt::ListCmd(a, b) | Stmt::DeleteCmd(a, b) => {
            if let Some(t) = a {
                f(t)
            }
            if let Some(t) = b {
                f(t)
            }
        }
        Stmt::If { then, els, .. } => {
            match then {
                Branch::Line(t) => f(t),
                Branch::Stmts(v) => {
                    for s in v {
                        map_targets_stmt(s, f)
                    }
                }
            }
            if let Some(e) = els {
                match e {
                    Branch::Line(t) => f(t),
                    Branch::Stmts(v) => {
                        for s in v {
                            map_targets_stmt(s, f)
                        }
                    }
                }
            }
        }
        _ => {}
    }
}

pub fn map_targets(p: &mut Program, f: &mut dyn FnMut(&mut Target)) {
    for l in p.lines.iter_mut() {
        for s in l.stmts.iter_mut() {
            map_targets_stmt(s, f);
        }
    }
}

/// Visit every statement (including those nested in IF branches).
pub fn walk_stmts<'p>(stmts: &'p [Stmt], f: &mut dyn FnMut(&'p Stmt)) {
    for s in stmts {
        f(s);
        if let Stmt::If { then, els, .. } = s {
            if let Branch::Stmts(v) = then {
                walk_stmts(v, f);
            }
            if let Some(Branch::Stmts(v)) = els {
                walk_stmts(v, f);
            }
        }
    }
}

impl<'a> Gen<'a> {
    pub fn new(rng: &'a mut Rng, cfg: GenCfg) -> Gen<'a> {
        Gen {
            rng,
            cfg,
            labels: 0,
            active_loops: vec![],
            counters: 0,
            arrays: vec![],
            data_types: vec![],
            fns: vec![],
            fn_params: vec![],
            subs: vec![],
            sub_bodies: vec![],
            stops: 0,
            restarts: 0,
            planted: false,
            depth_guard_used: false,
            tron_on: false,
            in_sub: 0,
            params: vec![],
        }
    }

    fn label(&mut self) -> usize {
        self.labels += 1;
        self.labels - 1
    }

    // ---- expressions ------------------------------------------------------

    fn int_lit(&mut self) -> Expr {
        let n = *self.rng.pick(&[0, 1, 1, 2, 2, 3, 4, 5, 7, 10, 12, 20, 100]);
        Expr::Int(n)
    }

    fn array_ref(&mut self, ty: Ty, depth: u32) -> Option<Expr> {
        let cands: Vec<usize> = (0..self.arrays.len())
            .filter(|i| self.arrays[*i].1 == ty)
            .collect();
        if cands.is_empty() {
            return None;
        }
        let i = *self.rng.pick(&cands);
        let (name, _, dims, _) = self.arrays[i].clone();
        let idx: Vec<Expr> = dims
            .iter()
            .map(|d| self.subscript(*d, depth))
            .collect();
        Some(Expr::L(Box::new(LVal::arr(&name, idx))))
    }

    fn subscript(&mut self, bound: i16, depth: u32) -> Expr {
        if depth < 2 && self.rng.pct(25) && !self.active_loops.is_empty() {
            // a loop variable; may run past the bound: a legitimate SUBSCRIPT OUT OF RANGE
            let v = self.rng.pick(&self.active_loops.clone()).clone();
            if v.ends_with('%') {
                return Expr::var(&v);
            }
        }
        let n = self.rng.range(0, bound.min(6) as i64) as i16;
        Expr::Int(n)
    }

    pub fn int_expr(&mut self, depth: u32) -> Expr {
        if self.cfg.emph == Emph::Fn && depth < 3 && self.rng.pct(22) {
            if let Some(e) = self.fn_call(Ty::Int, depth + 1) {
                return e;
            }
        }
        let leaf = depth >= 3 || self.rng.pct(45);
        if leaf {
            match self.rng.below(10) {
                0..=3 => self.int_lit(),
                4..=6 => {
                    let mut pool: Vec<String> = INT_VARS.iter().map(|s| s.to_string()).collect();
                    for v in &self.active_loops {
                        if v.ends_with('%') {
                            pool.push(v.clone());
                        }
                    }
                    for (p, t) in &self.params {
                        if *t == Ty::Int {
                            pool.push(p.clone());
                        }
                    }
                    { let v = self.rng.pick::<String>(&pool).clone(); Expr::var(&v) }
                }
                7 => {
                    if self.cfg.arrays {
                        if let Some(e) = self.array_ref(Ty::Int, depth + 1) {
                            return e;
                        }
                    }
                    self.int_lit()
                }
                8 => {
                    if self.cfg.strings {
                        Expr::Call(Builtin::Len, vec![self.str_expr(depth + 1)])
                    } else {
                        self.int_lit()
                    }
                }
                _ => Expr::int(-(self.rng.range(1, 9) as i32)),
            }
        } else {
            match self.rng.below(12) {
                0..=2 => Expr::bin(BinOp::Add, self.int_expr(depth + 1), self.int_expr(depth + 1)),
                3..=4 => Expr::bin(BinOp::Sub, self.int_expr(depth + 1), self.int_expr(depth + 1)),
                5 => Expr::bin(BinOp::Mul, self.int_expr(depth + 1), self.int_lit()),
                6 => Expr::bin(
                    *self.rng.pick(&[BinOp::IDiv, BinOp::Mod]),
                    self.int_expr(depth + 1),
                    Expr::Int(self.rng.range(1, 7) as i16),
                ),
                7 => self.rel_expr(depth + 1),
                8 => Expr::bin(
                    *self.rng.pick(&[BinOp::And, BinOp::Or, BinOp::Xor]),
                    self.int_expr(depth + 1),
                    self.int_expr(depth + 1),
                ),
                9 => Expr::Call(
                    *self.rng.pick(&[Builtin::Abs, Builtin::Sgn]),
                    vec![self.int_expr(depth + 1)],
                ),
                10 => {
                    if let Some(e) = self.fn_call(Ty::Int, depth + 1) {
                        e
                    } else {
                        Expr::Neg(Box::new(self.int_expr(depth + 1)))
                    }
                }
                _ => Expr::Not(Box::new(self.int_expr(depth + 1))),
            }
        }
    }

    fn sng_lit(&mut self) -> Expr {
        let k = self.rng.range(0, 40) as f32;
        Expr::Sng(k * 0.25)
    }

    pub fn sng_expr(&mut self, depth: u32) -> Expr {
        if self.cfg.rnd && self.rng.pct(8) {
            return Expr::Call(
                Builtin::Int,
                vec![Expr::bin(BinOp::Mul, Expr::Call(Builtin::Rnd, vec![Expr::Int(1)]), Expr::Int(10))],
            );
        }
        if self.cfg.emph == Emph::Fn && depth < 3 && self.rng.pct(22) {
            if let Some(e) = self.fn_call(Ty::Sng, depth + 1) {
                return e;
            }
        }
        let leaf = depth >= 3 || self.rng.pct(45);
        if leaf {
            match self.rng.below(8) {
                0..=2 => self.sng_lit(),
                3..=5 => {
                    let mut pool: Vec<String> = SNG_VARS.iter().map(|s| s.to_string()).collect();
                    for v in &self.active_loops {
                        if !v.ends_with('%') {
                            pool.push(v.clone());
                        }
                    }
                    for (p, t) in &self.params {
                        if *t == Ty::Sng {
                            pool.push(p.clone());
                        }
                    }
                    { let v = self.rng.pick::<String>(&pool).clone(); Expr::var(&v) }
                }
                6 => {
                    if self.cfg.arrays {
                        if let Some(e) = self.array_ref(Ty::Sng, depth + 1) {
                            return e;
                        }
                    }
                    self.sng_lit()
                }
                _ => self.int_expr(depth + 1),
            }
        } else {
            match self.rng.below(9) {
                0..=1 => Expr::bin(BinOp::Add, self.sng_expr(depth + 1), self.sng_expr(depth + 1)),
                2..=3 => Expr::bin(BinOp::Sub, self.sng_expr(depth + 1), self.sng_expr(depth + 1)),
                4 => Expr::bin(BinOp::Mul, self.sng_expr(depth + 1), self.sng_lit()),
                5 => Expr::bin(
                    BinOp::Div,
                    self.sng_expr(depth + 1),
                    Expr::Int(*self.rng.pick(&[2i16, 4, 8])),
                ),
                6 => Expr::Call(
                    *self.rng.pick(&[Builtin::Int, Builtin::Fix, Builtin::Abs]),
                    vec![self.sng_expr(depth + 1)],
                ),
                7 => {
                    if let Some(e) = self.fn_call(Ty::Sng, depth + 1) {
                        e
                    } else {
                        Expr::Neg(Box::new(self.sng_expr(depth + 1)))
                    }
                }
                _ => {
                    if self.cfg.doubles {
                        Expr::Call(Builtin::Csng, vec![self.dbl_expr(depth + 1)])
                    } else {
                        self.sng_expr(depth + 1)
                    }
                }
            }
        }
    }

    pub fn dbl_expr(&mut self, depth: u32) -> Expr {
        if depth >= 2 || self.rng.pct(50) {
            if self.rng.pct(50) {
                Expr::Dbl(self.rng.range(0, 64) as f64 * 0.125)
            } else {
                Expr::var(*self.rng.pick::<&str>(DBL_VARS))
            }
        } else {
            let op = *self.rng.pick(&[BinOp::Add, BinOp::Sub, BinOp::Mul]);
            let a = self.dbl_expr(depth + 1);
            let b = if self.rng.pct(50) {
                self.dbl_expr(depth + 1)
            } else {
                self.sng_expr(depth + 2)
            };
            Expr::bin(op, a, b)
        }
    }

    fn str_lit(&mut self) -> Expr {
        let s = *self.rng.pick(&[
            "", "A", "B", "HI", "ABC", "XYZZY", "a b", "x,y", "é", "日本", "-", "12", " 7",
            "GOTO 10", "'", ":",
        ]);
        Expr::Str(s.to_string())
    }

    pub fn str_expr(&mut self, depth: u32) -> Expr {
        if self.cfg.emph == Emph::Fn && depth < 3 && self.rng.pct(22) {
            if let Some(e) = self.fn_call(Ty::Str, depth + 1) {
                return e;
            }
        }
        if !self.cfg.strings {
            return Expr::Str("S".into());
        }
        let leaf = depth >= 3 || self.rng.pct(50);
        if leaf {
            match self.rng.below(7) {
                0..=2 => self.str_lit(),
                3..=5 => {
                    let mut pool: Vec<String> = STR_VARS.iter().map(|s| s.to_string()).collect();
                    for (p, t) in &self.params {
                        if *t == Ty::Str {
                            pool.push(p.clone());
                        }
                    }
                    { let v = self.rng.pick::<String>(&pool).clone(); Expr::var(&v) }
                }
                _ => {
                    if self.cfg.arrays {
                        if let Some(e) = self.array_ref(Ty::Str, depth + 1) {
                            return e;
                        }
                    }
                    self.str_lit()
                }
            }
        } else {
            match self.rng.below(9) {
                0..=2 => Expr::bin(BinOp::Add, self.str_expr(depth + 1), self.str_expr(depth + 1)),
                3 => Expr::Call(
                    *self.rng.pick(&[Builtin::Left, Builtin::Right]),
                    vec![self.str_expr(depth + 1), Expr::Int(self.rng.range(0, 4) as i16)],
                ),
                4 => {
                    let s = self.str_expr(depth + 1);
                    // position 1 is always valid for a non-empty string; guard with a prefix
                    let s = Expr::bin(BinOp::Add, Expr::Str("ab".into()), s);
                    let mut args = vec![s, Expr::Int(self.rng.range(1, 2) as i16)];
                    if self.rng.pct(50) {
                        args.push(Expr::Int(self.rng.range(0, 3) as i16));
                    }
                    Expr::Call(Builtin::Mid, args)
                }
                5 => Expr::Call(Builtin::Chr, vec![Expr::Int(self.rng.range(65, 90) as i16)]),
                6 => Expr::Call(Builtin::Str, vec![self.int_expr(depth + 1)]),
                7 => Expr::Call(
                    Builtin::StringS,
                    vec![
                        Expr::Int(self.rng.range(0, 5) as i16),
                        if self.rng.pct(50) {
                            Expr::Str("*".into())
                        } else {
                            Expr::Int(self.rng.range(48, 57) as i16)
                        },
                    ],
                ),
                _ => {
                    if let Some(e) = self.fn_call(Ty::Str, depth + 1) {
                        e
                    } else {
                        self.str_lit()
                    }
                }
            }
        }
    }

    fn rel_op(&mut self) -> BinOp {
        *self
            .rng
            .pick(&[BinOp::Eq, BinOp::Ne, BinOp::Lt, BinOp::Le, BinOp::Gt, BinOp::Ge])
    }

    fn rel_expr(&mut self, depth: u32) -> Expr {
        let op = self.rel_op();
        match self.rng.below(4) {
            0..=1 => Expr::bin(op, self.int_expr(depth + 1), self.int_expr(depth + 1)),
            2 => Expr::bin(op, self.sng_expr(depth + 1), self.sng_expr(depth + 1)),
            _ => {
                if self.cfg.strings {
                    Expr::bin(op, self.str_expr(depth + 1), self.str_expr(depth + 1))
                } else {
                    Expr::bin(op, self.int_expr(depth + 1), self.int_lit())
                }
            }
        }
    }

    pub fn cond(&mut self, depth: u32) -> Expr {
        match self.rng.below(6) {
            0..=3 => self.rel_expr(depth),
            4 => Expr::bin(
                *self.rng.pick(&[BinOp::And, BinOp::Or]),
                self.rel_expr(depth + 1),
                self.rel_expr(depth + 1),
            ),
            _ => self.int_expr(depth + 1),
        }
    }

    fn fn_call(&mut self, want: Ty, depth: u32) -> Option<Expr> {
        if !self.cfg.fns || self.fns.is_empty() || self.tron_on || !self.params.is_empty() && depth > 3 {
            return None;
        }
        let cands: Vec<usize> = (0..self.fns.len())
            .filter(|i| self.fns[*i].2 == want || (want == Ty::Sng && self.fns[*i].2 == Ty::Int))
            .collect();
        if cands.is_empty() {
            return None;
        }
        let (name, ptys, _) = self.fns[*self.rng.pick(&cands)].clone();
        let args: Vec<Expr> = ptys.iter().map(|t| self.expr_of(*t, depth + 1)).collect();
        Some(Expr::Fn(name, args))
    }

    pub fn expr_of(&mut self, ty: Ty, depth: u32) -> Expr {
        match ty {
            Ty::Int => self.int_expr(depth),
            Ty::Sng => self.sng_expr(depth),
            Ty::Dbl => self.dbl_expr(depth),
            Ty::Str => self.str_expr(depth),
        }
    }

    // ---- simple statements ----------------------------------------------------

    fn scalar_target(&mut self) -> (LVal, Ty) {
        let mut kinds = vec![Ty::Int, Ty::Int, Ty::Sng, Ty::Sng];
        if self.cfg.strings {
            kinds.push(Ty::Str);
            kinds.push(Ty::Str);
        }
        if self.cfg.doubles {
            kinds.push(Ty::Dbl);
        }
        let ty = *self.rng.pick(&kinds);
        let name: &str = match ty {
            Ty::Int => *self.rng.pick::<&str>(INT_VARS),
            Ty::Sng => *self.rng.pick::<&str>(SNG_VARS),
            Ty::Dbl => *self.rng.pick::<&str>(DBL_VARS),
            Ty::Str => *self.rng.pick::<&str>(STR_VARS),
        };
        (LVal::scalar(name), ty)
    }

    fn any_target(&mut self) -> (LVal, Ty) {
        if self.cfg.arrays && !self.arrays.is_empty() && self.rng.pct(35) {
            let i = self.rng.usize(self.arrays.len());
            let (name, ty, dims, _) = self.arrays[i].clone();
            let idx: Vec<Expr> = dims.iter().map(|d| self.subscript(*d, 1)).collect();
            (LVal::arr(&name, idx), ty)
        } else {
            self.scalar_target()
        }
    }

    fn print_stmt(&mut self) -> Stmt {
        let n = if self.cfg.emph == Emph::Print { self.rng.range(0, 7) } else { self.rng.range(0, 4) };
        let mut items: Vec<PItem> = vec![];
        let mut prev_is_expr = false;
        let mut prev_str_lit = false;
        for _ in 0..n {
            let e = match self.rng.below(10) {
                0..=2 => self.int_expr(1),
                3..=4 => self.sng_expr(1),
                5..=7 => {
                    if self.cfg.strings {
                        self.str_expr(1)
                    } else {
                        Expr::Str("OK".into())
                    }
                }
                _ => {
                    if self.cfg.layout {
                        match self.rng.below(3) {
                            0 => Expr::Call(Builtin::Tab, vec![Expr::Int(self.rng.range(0, 40) as i16)]),
                            1 => Expr::Call(Builtin::Spc, vec![Expr::Int(self.rng.range(0, 6) as i16)]),
                            _ => Expr::Call(Builtin::Pos, vec![Expr::Int(0)]),
                        }
                    } else {
                        self.int_lit()
                    }
                }
            };
            if prev_is_expr {
                let this_str_lit = matches!(e, Expr::Str(_));
                // juxtaposition only next to a string literal, never before '-' or '('
                if (prev_str_lit || this_str_lit) && !matches!(e, Expr::Neg(_) | Expr::Not(_)) && self.rng.pct(30) {
                    // nothing between
                } else if self.cfg.layout && self.rng.pct(35) {
                    items.push(PItem::Comma);
                } else {
                    items.push(PItem::Semi);
                }
            }
            prev_str_lit = matches!(e, Expr::Str(_));
            items.push(PItem::E(e));
            prev_is_expr = true;
        }
        if prev_is_expr && self.rng.pct(25) {
            if self.cfg.layout && self.rng.pct(40) {
                items.push(PItem::Comma);
            } else {
                items.push(PItem::Semi);
            }
        }
        Stmt::Print {
            q: self.cfg.q_spelling && self.rng.pct(30),
            items,
        }
    }

    fn let_stmt(&mut self) -> Stmt {
        let (target, ty) = self.any_target();
        let expr = self.expr_of(ty, 0);
        Stmt::Let {
            kw: self.rng.pct(15),
            target,
            expr,
        }
    }

    fn planted_error(&mut self) -> Stmt {
        self.planted = true;
        match self.rng.below(9) {
            0 => Stmt::Let {
                kw: false,
                target: LVal::scalar("N%"),
                expr: Expr::Str("X".into()),
            },
            1 => Stmt::Let {
                kw: false,
                target: LVal::scalar("N%"),
                expr: Expr::bin(BinOp::Mul, Expr::Int(300), Expr::Int(300)),
            },
            2 => Stmt::Let {
                kw: false,
                target: LVal::scalar("M%"),
                expr: Expr::bin(BinOp::IDiv, Expr::Int(5), Expr::Int(0)),
            },
            3 => Stmt::Let {
                kw: false,
                target: LVal::arr("ZQ", vec![Expr::Int(11)]),
                expr: Expr::Int(1),
            },
            4 => Stmt::Return,
            5 => Stmt::Next(vec![]),
            6 => Stmt::Print {
                q: false,
                items: vec![PItem::E(Expr::Fn(Var::new("ZZ"), vec![Expr::Int(1)]))],
            },
            7 => {
                if !self.fns.is_empty() && self.rng.pct(60) {
                    // wrong number of arguments
                    let (name, ptys, _) = self.fns[0].clone();
                    let mut args: Vec<Expr> = ptys.iter().map(|t| self.expr_of(*t, 2)).collect();
                    if self.rng.pct(50) || args.is_empty() {
                        args.push(Expr::Int(1));
                    } else {
                        args.pop();
                        if args.is_empty() {
                            args.push(Expr::Int(1));
                            args.push(Expr::Int(2));
                        }
                    }
                    Stmt::Print {
                        q: false,
                        items: vec![PItem::E(Expr::Fn(name, args))],
                    }
                } else {
                    Stmt::OnGoto(Expr::int(-1), vec![Target::L(0)])
                }
            }
            _ => Stmt::Let {
                kw: false,
                target: LVal::scalar("S$"),
                expr: Expr::bin(
                    BinOp::Add,
                    Expr::Call(Builtin::StringS, vec![Expr::Int(200), Expr::Str("x".into())]),
                    Expr::Call(Builtin::StringS, vec![Expr::Int(200), Expr::Str("y".into())]),
                ),
            },
        }
    }

    fn simple(&mut self) -> Stmt {
        let r = self.rng.below(100);
        if self.cfg.errors && !self.planted && self.rng.pct(4) && self.active_loops.is_empty() && self.in_sub == 0 {
            // RETURN / NEXT as planted errors only where no frame exists
            return self.planted_error();
        }
        match self.cfg.emph {
            Emph::Data if self.cfg.data && self.rng.pct(35) => {
                return if self.rng.pct(75) { self.read_stmt(4) } else { Stmt::Restore(None) };
            }
            Emph::Print if self.rng.pct(45) => return self.print_stmt(),
            Emph::Input if self.cfg.input && self.rng.pct(35) => return self.input_stmt(),
            _ => {}
        }
        match r {
            0..=34 => self.let_stmt(),
            35..=69 => self.print_stmt(),
            70..=74 if self.cfg.swap_mid => {
                let (a, ta) = self.any_target();
                let (b, tb) = self.any_target();
                if ta == tb || (self.cfg.errors && self.rng.pct(15)) {
                    Stmt::Swap(a, b)
                } else {
                    self.let_stmt()
                }
            }
            75..=78 if self.cfg.swap_mid && self.cfg.strings => Stmt::MidSet {
                target: LVal::scalar(*self.rng.pick::<&str>(STR_VARS)),
                pos: Expr::Int(self.rng.range(1, 3) as i16),
                len: if self.rng.pct(50) {
                    Some(Expr::Int(self.rng.range(0, 3) as i16))
                } else {
                    None
                },
                expr: self.str_expr(1),
            },
            79..=85 if self.cfg.data && !self.data_types.is_empty() => self.read_stmt(2),
            86..=87 if self.cfg.data => Stmt::Restore(None),
            88..=93 if self.cfg.input => self.input_stmt(),
            94..=95 if self.cfg.tron => {
                if self.tron_on {
                    self.tron_on = false;
                    Stmt::Troff
                } else {
                    self.tron_on = true;
                    Stmt::Tron
                }
            }
            96..=97 if self.cfg.inkey => Stmt::Let {
                kw: false,
                target: LVal::scalar("Z$"),
                expr: Expr::Call(Builtin::Inkey, vec![]),
            },
            _ => self.print_stmt(),
        }
    }

    fn read_stmt(&mut self, max: i64) -> Stmt {
        let n = self.rng.range(1, max);
        let mut ts = vec![];
        for _ in 0..n {
            // mostly type-compatible reads: pick a target of a plausible type
            let (t, _) = if self.rng.pct(80) && !self.data_types.is_empty() {
                let want = *self.rng.pick(&self.data_types.clone());
                match want {
                    Ty::Str if self.cfg.strings => (LVal::scalar(*self.rng.pick::<&str>(STR_VARS)), Ty::Str),
                    Ty::Str => (LVal::scalar("S$"), Ty::Str),
                    _ => match self.rng.below(4) {
                        0 => (LVal::scalar(*self.rng.pick::<&str>(INT_VARS)), Ty::Int),
                        1 if self.cfg.doubles => (LVal::scalar(*self.rng.pick::<&str>(DBL_VARS)), Ty::Dbl),
                        _ => (LVal::scalar(*self.rng.pick::<&str>(SNG_VARS)), Ty::Sng),
                    },
                }
            } else {
                self.any_target()
            };
            ts.push(t);
        }
        Stmt::Read(ts)
    }

    pub fn input_stmt_public(&mut self) -> Stmt {
        self.input_stmt()
    }

    fn input_stmt(&mut self) -> Stmt {
        let n = if self.cfg.emph == Emph::Input { self.rng.range(1, 5) } else { self.rng.range(1, 3) };
        let mut targets = vec![];
        for i in 0..n {
            let (t, _) = if i > 0 && self.cfg.arrays && self.rng.pct(20) {
                // array target whose subscript is an earlier target of the same statement
                let first: &LVal = &targets[0];
                if first.var.sfx == Some('%') && first.idx.is_empty() {
                    self.ensure_array("NA", Ty::Sng, 1);
                    (
                        LVal::arr("NA", vec![Expr::L(Box::new(first.clone()))]),
                        Ty::Sng,
                    )
                } else {
                    self.any_target()
                }
            } else {
                self.any_target()
            };
            targets.push(t);
        }
        Stmt::Input {
            nocaps: self.rng.pct(20),
            prompt: if self.rng.pct(50) {
                Some(self.rng.pick(&["VALUE", "NAME", "X,Y", "é"]).to_string())
            } else {
                None
            },
            targets,
        }
    }

    fn ensure_array(&mut self, name: &str, ty: Ty, ndims: usize) {
        if !self.arrays.iter().any(|a| a.0 == name) {
            self.arrays.push((name.to_string(), ty, vec![10; ndims], false));
        }
    }

    // ---- structured blocks ------------------------------------------------------

    /// One to four simple statements (for edit workloads).
    pub fn simple_line_public(&mut self, out: &mut Vec<Stmt>) {
        let n = 1 + self.rng.geometric(3) as usize;
        for _ in 0..n {
            out.push(self.simple());
        }
    }

    fn simple_line(&mut self, out: &mut Vec<Draft>) {
        let n = 1 + self.rng.geometric(3) as usize;
        let mut stmts = vec![];
        for _ in 0..n {
            stmts.push(self.simple());
        }
        out.push(Draft { label: None, stmts });
    }

    fn inline_stmts(&mut self) -> Vec<Stmt> {
        let n = 1 + self.rng.geometric(2) as usize;
        let mut v: Vec<Stmt> = (0..n).map(|_| self.simple()).collect();
        // a branch may end the program
        if self.cfg.end_mid && !self.tron_on && self.rng.pct(12) {
            v.push(Stmt::End);
        }
        v
    }

    fn block(&mut self, depth: u32, budget: usize, out: &mut Vec<Draft>) {
        let mut left = budget as i64;
        while left > 0 {
            let before = out.len();
            self.construct(depth, out);
            left -= (out.len() - before).max(1) as i64;
        }
    }

    fn construct(&mut self, depth: u32, out: &mut Vec<Draft>) {
        let deep = depth >= 3;
        let r = self.rng.below(100);
        match r {
            0..=29 => self.simple_line(out),
            30..=39 => {
                // inline IF
                let cond = self.cond(0);
                let mut then_stmts = self.inline_stmts();
                let els = if self.rng.pct(40) {
                    Some(Branch::Stmts(self.inline_stmts()))
                } else {
                    None
                };
                if els.is_some() && self.cfg.on && self.labels > 0 && self.rng.pct(20) {
                    // the THEN branch ends in an ON..GOTO whose selector is out of range: it falls
                    // through to the next line, never into the ELSE branch
                    let t = Target::L(self.rng.usize(self.labels));
                    let sel = *self.rng.pick(&[0i32, 2, 3]);
                    then_stmts.push(Stmt::OnGoto(Expr::int(sel), vec![t]));
                }
                let then = Branch::Stmts(then_stmts);
                let mut stmts = vec![];
                if self.rng.pct(30) {
                    stmts.push(self.simple());
                }
                stmts.push(Stmt::If {
                    cond,
                    goto_form: false,
                    then,
                    els,
                });
                out.push(Draft { label: None, stmts });
            }
            40..=47 if !deep => {
                // forward skip
                let after = self.label();
                let cond = self.cond(0);
                let goto_form = self.rng.pct(25);
                let then = if !goto_form && self.rng.pct(30) {
                    Branch::Stmts(vec![Stmt::Goto(Target::L(after))])
                } else {
                    Branch::Line(Target::L(after))
                };
                out.push(Draft {
                    label: None,
                    stmts: vec![Stmt::If {
                        cond,
                        goto_form,
                        then,
                        els: None,
                    }],
                });
                let n = 1 + self.rng.usize(2);
                self.block(depth + 1, n, out);
                let mut d = Draft {
                    label: Some(after),
                    stmts: vec![],
                };
                d.stmts.push(self.simple());
                out.push(d);
            }
            48..=52 if !deep => {
                // IF c THEN l1 ELSE l2 with both arms as line blocks
                let l1 = self.label();
                let l2 = self.label();
                let join = self.label();
                let cond = self.cond(0);
                out.push(Draft {
                    label: None,
                    stmts: vec![Stmt::If {
                        cond,
                        goto_form: false,
                        then: Branch::Line(Target::L(l1)),
                        els: Some(Branch::Line(Target::L(l2))),
                    }],
                });
                let mut a = Draft {
                    label: Some(l1),
                    stmts: vec![self.simple()],
                };
                a.stmts.push(Stmt::Goto(Target::L(join)));
                out.push(a);
                out.push(Draft {
                    label: Some(l2),
                    stmts: vec![self.simple()],
                });
                out.push(Draft {
                    label: Some(join),
                    stmts: vec![self.simple()],
                });
            }
            53..=66 if self.cfg.fors && !deep => self.for_loop(depth, out),
            67..=72 if self.cfg.whiles && !deep => self.while_loop(depth, out),
            73..=80 if self.cfg.gosub && depth < 2 => self.gosub_call(out),
            81..=85 if self.cfg.on && !deep => self.on_goto(depth, out),
            86..=88 if self.cfg.on && self.cfg.gosub && depth < 2 => self.on_gosub(out),
            89..=92 if self.cfg.back_goto && !deep => self.back_loop(depth, out),
            93..=94 if (self.cfg.stop || self.cfg.end_mid) && self.stops < 2 && !self.tron_on => {
                self.stops += 1;
                let s = if self.cfg.stop && (!self.cfg.end_mid || self.rng.pct(60)) {
                    Stmt::Stop
                } else {
                    Stmt::End
                };
                let mut stmts = vec![];
                if self.rng.pct(40) {
                    stmts.push(self.simple());
                }
                stmts.push(s);
                if self.rng.pct(40) {
                    stmts.push(self.simple());
                }
                out.push(Draft { label: None, stmts });
            }
            96 if self.cfg.emph == Emph::Fn && !self.fns.is_empty() && !self.tron_on => {
                // a function is defined again later in the program (same name and parameters, another
                // body), with calls before and after on the same line: no output in between
                let i = self.rng.usize(self.fns.len());
                let (name, ptys, ret) = self.fns[i].clone();
                let params = self.fn_params[i].clone();
                let call = |g: &mut Gen| -> Stmt {
                    let args: Vec<Expr> = ptys.iter().map(|t| g.expr_of(*t, 2)).collect();
                    let target = match ret {
                        Ty::Str => LVal::scalar("Z$"),
                        Ty::Int => LVal::scalar("Q%"),
                        _ => LVal::scalar("G"),
                    };
                    Stmt::Let {
                        kw: false,
                        target,
                        expr: Expr::Fn(name.clone(), args),
                    }
                };
                let before = call(self);
                self.params = params.iter().zip(ptys.iter()).map(|(p, t)| (p.text(), *t)).collect();
                // the new body may call functions defined earlier in the list only (no recursion)
                let saved: Vec<(Var, Vec<Ty>, Ty)> = self.fns.drain(i..).collect();
                let body = self.expr_of(ret, 1);
                self.fns.extend(saved);
                self.params.clear();
                let after = call(self);
                let target = match ret {
                    Ty::Str => "Z$",
                    Ty::Int => "Q%",
                    _ => "G",
                };
                out.push(Draft {
                    label: None,
                    stmts: vec![
                        before,
                        Stmt::DefFn {
                            name: name.clone(),
                            params,
                            body,
                        },
                        after,
                        Stmt::Print {
                            q: false,
                            items: vec![PItem::E(Expr::var(target))],
                        },
                    ],
                });
            }
            95 if self.cfg.input && !self.tron_on && self.restarts < 1 && !self.cfg.rnd => {
                // the program restarts itself (RUN as a statement, possibly from inside loops and
                // subroutines) depending on what the operator answers
                self.restarts += 1;
                let target = if self.rng.pct(30) { Some(Target::L(usize::MAX - 0)) } else { None };
                out.push(Draft {
                    label: None,
                    stmts: vec![
                        Stmt::Input {
                            nocaps: false,
                            prompt: Some("AGAIN".into()),
                            targets: vec![LVal::scalar("R9%")],
                        },
                        Stmt::If {
                            cond: Expr::bin(BinOp::Lt, Expr::var("R9%"), Expr::Int(1)),
                            goto_form: false,
                            then: Branch::Stmts(vec![Stmt::Run(target)]),
                            els: None,
                        },
                    ],
                });
            }
            _ => self.simple_line(out),
        }
    }

    fn free_loop_var(&mut self) -> Option<String> {
        let free: Vec<&&str> = LOOP_VARS
            .iter()
            .filter(|v| !self.active_loops.iter().any(|a| a == **v))
            .collect();
        if free.is_empty() {
            None
        } else {
            Some(self.rng.pick(&free).to_string())
        }
    }

    /// FOR a .. FOR b .. body .. NEXT b,a
    fn for_pair(&mut self, out: &mut Vec<Draft>) -> bool {
        let a = match self.free_loop_var() {
            Some(v) => v,
            None => return false,
        };
        self.active_loops.push(a.clone());
        let b = match self.free_loop_var() {
            Some(v) => v,
            None => {
                self.active_loops.pop();
                return false;
            }
        };
        self.active_loops.push(b.clone());
        let lit = |v: &str, n: i64| if v.ends_with('%') { Expr::int(n as i32) } else { Expr::int(n as i32) };
        let (fa, ta) = (self.rng.range(0, 2), self.rng.range(1, 3));
        let (fb, tb) = (self.rng.range(0, 2), self.rng.range(0, 3));
        let mut head = vec![Stmt::For {
            var: Var::new(&a),
            from: lit(&a, fa),
            to: lit(&a, fa + ta),
            step: None,
        }];
        let for_b = Stmt::For {
            var: Var::new(&b),
            from: lit(&b, fb),
            to: lit(&b, fb + tb),
            step: if self.rng.pct(30) { Some(Expr::Int(2)) } else { None },
        };
        if self.rng.pct(50) {
            head.push(for_b);
            out.push(Draft { label: None, stmts: head });
        } else {
            out.push(Draft { label: None, stmts: head });
            out.push(Draft {
                label: None,
                stmts: vec![for_b],
            });
        }
        let body = self.simple();
        let mut tail = vec![body];
        tail.push(Stmt::Next(vec![Var::new(&b), Var::new(&a)]));
        if self.rng.pct(40) {
            out.push(Draft {
                label: None,
                stmts: vec![tail.remove(0)],
            });
        }
        out.push(Draft { label: None, stmts: tail });
        self.active_loops.pop();
        self.active_loops.pop();
        true
    }

    fn for_loop(&mut self, depth: u32, out: &mut Vec<Draft>) {
        if depth < 2 && self.rng.pct(15) && self.for_pair(out) {
            return;
        }
        let var = match self.free_loop_var() {
            Some(v) => v,
            None => return self.simple_line(out),
        };
        let is_int = var.ends_with('%');
        let from = self.rng.range(0, 3);
        let span = self.rng.range(-1, 4);
        let (from_e, to_e, step_e) = if is_int || self.rng.pct(60) {
            let step = *self.rng.pick(&[1i64, 1, 1, 2, -1, -2, 3]);
            let to = if step > 0 { from + span } else { from - span };
            (
                Expr::int(from as i32),
                Expr::int(to as i32),
                if step == 1 && self.rng.pct(70) {
                    None
                } else {
                    Some(Expr::int(step as i32))
                },
            )
        } else {
            let step = *self.rng.pick(&[0.5f32, 0.25, -0.5, 1.5]);
            let to = from as f32 + span as f32 * step.abs() * if step > 0.0 { 1.0 } else { -1.0 };
            let lit = |v: f32| {
                if v < 0.0 {
                    Expr::Neg(Box::new(Expr::Sng(-v)))
                } else {
                    Expr::Sng(v)
                }
            };
            (lit(from as f32), lit(to), Some(lit(step)))
        };
        // occasionally limits that are expressions (evaluated once, x then y then z)
        let to_e = if self.rng.pct(15) {
            Expr::bin(BinOp::Add, to_e, Expr::Int(0))
        } else {
            to_e
        };
        let for_stmt = Stmt::For {
            var: Var::new(&var),
            from: from_e,
            to: to_e,
            step: step_e,
        };
        let after = self.label();
        self.active_loops.push(var.clone());
        let mut head = Draft {
            label: None,
            stmts: vec![for_stmt],
        };
        if self.rng.pct(35) {
            head.stmts.push(self.simple());
        }
        let single_line = self.rng.pct(15);
        if single_line {
            head.stmts.push(self.simple());
            head.stmts.push(Stmt::Next(if self.rng.pct(50) {
                vec![Var::new(&var)]
            } else {
                vec![]
            }));
            self.active_loops.pop();
            out.push(head);
            return;
        }
        out.push(head);
        let n = 1 + self.rng.usize(3);
        self.block(depth + 1, n, out);
        if self.cfg.early_exit && self.rng.pct(25) {
            let cond = self.cond(1);
            out.push(Draft {
                label: None,
                stmts: vec![Stmt::If {
                    cond,
                    goto_form: false,
                    then: Branch::Line(Target::L(after)),
                    els: None,
                }],
            });
        }
        let mut tail = Draft {
            label: None,
            stmts: vec![],
        };
        if self.rng.pct(25) {
            tail.stmts.push(self.simple());
        }
        tail.stmts.push(Stmt::Next(if self.rng.pct(55) {
            vec![Var::new(&var)]
        } else {
            vec![]
        }));
        self.active_loops.pop();
        if self.rng.pct(20) {
            tail.stmts.push(self.simple());
        }
        out.push(tail);
        out.push(Draft {
            label: Some(after),
            stmts: vec![self.simple()],
        });
    }

    fn counter(&mut self, prefix: &str) -> String {
        self.counters += 1;
        format!("{}{}%", prefix, self.counters)
    }

    fn while_loop(&mut self, depth: u32, out: &mut Vec<Draft>) {
        let c = self.counter("W");
        let n = self.rng.range(0, 3);
        out.push(Draft {
            label: None,
            stmts: vec![Stmt::Let {
                kw: false,
                target: LVal::scalar(&c),
                expr: Expr::Int(n as i16),
            }],
        });
        let mut head = Draft {
            label: None,
            stmts: vec![Stmt::While(Expr::bin(BinOp::Gt, Expr::var(&c), Expr::Int(0)))],
        };
        if self.rng.pct(30) {
            head.stmts.push(self.simple());
        }
        out.push(head);
        let k = 1 + self.rng.usize(2);
        self.block(depth + 1, k, out);
        let dec = Stmt::Let {
            kw: false,
            target: LVal::scalar(&c),
            expr: Expr::bin(BinOp::Sub, Expr::var(&c), Expr::Int(1)),
        };
        if self.rng.pct(50) {
            out.push(Draft {
                label: None,
                stmts: vec![dec, Stmt::Wend],
            });
        } else {
            out.push(Draft {
                label: None,
                stmts: vec![dec],
            });
            out.push(Draft {
                label: None,
                stmts: vec![Stmt::Wend],
            });
        }
    }

    fn back_loop(&mut self, depth: u32, out: &mut Vec<Draft>) {
        let c = self.counter("C");
        let n = self.rng.range(1, 3);
        out.push(Draft {
            label: None,
            stmts: vec![Stmt::Let {
                kw: false,
                target: LVal::scalar(&c),
                expr: Expr::Int(n as i16),
            }],
        });
        let top = self.label();
        out.push(Draft {
            label: Some(top),
            stmts: vec![self.simple()],
        });
        let k = self.rng.usize(2);
        self.block(depth + 1, k, out);
        let dec = Stmt::Let {
            kw: false,
            target: LVal::scalar(&c),
            expr: Expr::bin(BinOp::Sub, Expr::var(&c), Expr::Int(1)),
        };
        let test = Stmt::If {
            cond: Expr::bin(BinOp::Gt, Expr::var(&c), Expr::Int(0)),
            goto_form: self.rng.pct(30),
            then: Branch::Line(Target::L(top)),
            els: None,
        };
        out.push(Draft {
            label: None,
            stmts: vec![dec, test],
        });
    }

    fn new_sub(&mut self) -> usize {
        let l = self.label();
        self.subs.push(l);
        let idx = self.subs.len() - 1;
        self.sub_bodies.push(vec![]);
        // generate the body now, with nested calls only to later subs
        let saved_loops = std::mem::take(&mut self.active_loops);
        self.in_sub += 1;
        let mut body: Vec<Draft> = vec![];
        let mut first = Draft {
            label: Some(l),
            stmts: vec![self.simple()],
        };
        let recursive = !self.depth_guard_used && self.rng.pct(15);
        if recursive {
            self.depth_guard_used = true;
            first.stmts.insert(
                0,
                Stmt::Let {
                    kw: false,
                    target: LVal::scalar("D9%"),
                    expr: Expr::bin(BinOp::Add, Expr::var("D9%"), Expr::Int(1)),
                },
            );
        }
        body.push(first);
        let n = self.rng.usize(3);
        self.block(2, n, &mut body);
        if recursive {
            body.push(Draft {
                label: None,
                stmts: vec![Stmt::If {
                    cond: Expr::bin(BinOp::Lt, Expr::var("D9%"), Expr::Int(3)),
                    goto_form: false,
                    then: Branch::Stmts(vec![Stmt::Gosub(Target::L(l))]),
                    els: None,
                }],
            });
        }
        let mut last = Draft {
            label: None,
            stmts: vec![],
        };
        if self.rng.pct(30) {
            last.stmts.push(self.simple());
        }
        last.stmts.push(Stmt::Return);
        body.push(last);
        self.in_sub -= 1;
        self.active_loops = saved_loops;
        self.sub_bodies[idx] = body;
        idx
    }

    fn pick_sub(&mut self) -> usize {
        if self.subs.len() < 3 && (self.subs.is_empty() || self.rng.pct(40)) && self.in_sub < 2 {
            let i = self.new_sub();
            self.subs[i]
        } else if self.subs.is_empty() {
            let i = self.new_sub();
            self.subs[i]
        } else {
            // only subs created before the current one are complete; calling an earlier sub from a
            // later one could recurse: allow only when not inside a sub
            if self.in_sub > 0 {
                let i = self.new_sub();
                self.subs[i]
            } else {
                *self.rng.pick(&self.subs.clone())
            }
        }
    }

    fn gosub_call(&mut self, out: &mut Vec<Draft>) {
        if self.in_sub >= 2 {
            return self.simple_line(out);
        }
        let l = self.pick_sub();
        let mut stmts = vec![];
        if self.rng.pct(30) {
            stmts.push(self.simple());
        }
        stmts.push(Stmt::Gosub(Target::L(l)));
        if self.rng.pct(40) {
            stmts.push(self.simple());
        }
        out.push(Draft { label: None, stmts });
    }

    fn selector(&mut self, n: usize) -> Expr {
        if self.rng.pct(50) {
            Expr::int(self.rng.range(0, n as i64 + 1) as i32)
        } else {
            Expr::bin(
                BinOp::Mod,
                self.int_expr(1),
                Expr::Int((n + 2) as i16),
            )
        }
    }

    fn on_goto(&mut self, depth: u32, out: &mut Vec<Draft>) {
        let n = 1 + self.rng.usize(3);
        let labels: Vec<usize> = (0..n).map(|_| self.label()).collect();
        let join = self.label();
        let sel = self.selector(n);
        let mut stmts = vec![Stmt::OnGoto(sel, labels.iter().map(|l| Target::L(*l)).collect())];
        if self.rng.pct(30) {
            stmts.push(self.simple());
        }
        out.push(Draft { label: None, stmts });
        // fall-through part
        out.push(Draft {
            label: None,
            stmts: vec![self.simple(), Stmt::Goto(Target::L(join))],
        });
        for l in labels {
            let mut d = Draft {
                label: Some(l),
                stmts: vec![self.simple()],
            };
            if self.rng.pct(70) {
                d.stmts.push(Stmt::Goto(Target::L(join)));
            }
            out.push(d);
        }
        let _ = depth;
        out.push(Draft {
            label: Some(join),
            stmts: vec![self.simple()],
        });
    }

    fn on_gosub(&mut self, out: &mut Vec<Draft>) {
        if self.in_sub >= 2 {
            return self.simple_line(out);
        }
        let n = 1 + self.rng.usize(2);
        let mut ts = vec![];
        for _ in 0..n {
            let l = self.pick_sub();
            ts.push(Target::L(l));
        }
        let sel = self.selector(n);
        let mut stmts = vec![];
        if self.rng.pct(20) {
            stmts.push(self.simple());
        }
        stmts.push(Stmt::OnGosub(sel, ts));
        if self.rng.pct(40) {
            stmts.push(self.simple());
        }
        out.push(Draft { label: None, stmts });
    }

    // ---- whole programs -----------------------------------------------------------

    fn data_line(&mut self) -> Draft {
        let n = 1 + self.rng.usize(3);
        let mut items = vec![];
        for _ in 0..n {
            let (e, t) = match self.rng.below(5) {
                0..=1 => (Expr::int(self.rng.range(-9, 30) as i32), Ty::Int),
                2 => (Expr::Sng(self.rng.range(0, 20) as f32 * 0.5 + 0.5), Ty::Sng),
                _ => (self.str_lit(), Ty::Str),
            };
            let e = if let Expr::Sng(v) = e {
                if v.fract() == 0.0 {
                    Expr::Sng(v + 0.5)
                } else {
                    Expr::Sng(v)
                }
            } else {
                e
            };
            items.push(e);
            if !self.data_types.contains(&t) {
                self.data_types.push(t);
            }
        }
        Draft {
            label: None,
            stmts: vec![Stmt::Data(items)],
        }
    }

    pub fn program(&mut self) -> Program {
        let mut head: Vec<Draft> = vec![];
        let mut datas: Vec<Draft> = vec![];
        if self.cfg.data {
            let n = 1 + self.rng.usize(3);
            for _ in 0..n {
                let d = self.data_line();
                datas.push(d);
            }
        }
        if self.cfg.deftype {
            // before any variable exists; never covers F (user functions) or the loop/counter letters
            let (a, b) = *self.rng.pick(&[('A', 'C'), ('G', 'G'), ('A', 'A'), ('B', 'C')]);
            let ty = *self.rng.pick(&[Ty::Int, Ty::Dbl, Ty::Sng]);
            head.push(Draft {
                label: None,
                stmts: vec![Stmt::DefType(ty, a, b)],
            });
        }
        if self.cfg.arrays {
            let specs: &[(&str, Ty)] = &[("AR", Ty::Sng), ("IA%", Ty::Int), ("SA$", Ty::Str), ("BR", Ty::Sng)];
            let n = 1 + self.rng.usize(3);
            let mut dim_items = vec![];
            for i in 0..n {
                let (name, ty) = specs[i];
                if ty == Ty::Str && !self.cfg.strings {
                    continue;
                }
                let nd = 1 + self.rng.usize(2);
                let declared = self.rng.pct(60);
                let dims: Vec<i16> = if declared {
                    (0..nd).map(|_| self.rng.range(0, 12) as i16).collect()
                } else {
                    vec![10; nd]
                };
                if declared {
                    dim_items.push(LVal::arr(name, dims.iter().map(|d| Expr::Int(*d)).collect()));
                }
                self.arrays.push((name.to_string(), ty, dims, declared));
            }
            if !dim_items.is_empty() {
                head.push(Draft {
                    label: None,
                    stmts: vec![Stmt::Dim(dim_items)],
                });
            }
        }
        if self.cfg.fns {
            let n = if self.cfg.emph == Emph::Fn { 2 + self.rng.usize(2) } else { 1 + self.rng.usize(3) };
            for i in 0..n {
                // names that differ only in the type sigil are different functions
                let pool: &[(&str, Ty)] = if self.rng.pct(40) {
                    &[("A%", Ty::Int), ("A", Ty::Sng), ("A$", Ty::Str), ("A!", Ty::Sng)]
                } else {
                    &[("A", Ty::Sng), ("B$", Ty::Str), ("C%", Ty::Int), ("B", Ty::Sng)]
                };
                let mut pick = pool[i % pool.len()];
                if pool[0].0 == "A%" && self.rng.pct(50) {
                    pick = pool[self.rng.usize(pool.len())];
                }
                if pick.1 == Ty::Str && !self.cfg.strings {
                    pick = ("B", Ty::Sng);
                }
                // the same spelling is defined once only (A and A! are the same function)
                let clash = |a: &str, b: &str| a == b || (a.trim_end_matches('!') == b.trim_end_matches('!') && !a.ends_with(['%', '$', '#']) && !b.ends_with(['%', '$', '#']));
                if self.fns.iter().any(|f| clash(&f.0.text(), pick.0)) {
                    continue;
                }
                let (fname, ret) = pick;
                let np = 1 + self.rng.usize(3);
                let mut params = vec![];
                let mut ptys = vec![];
                for k in 0..np {
                    // parameter names equal to program variables on purpose
                    let shuffle = if self.cfg.emph == Emph::Fn { self.rng.usize(4) } else { 0 };
                    let (pn, pt) = match (k + i + shuffle) % 4 {
                        0 => ("N%", Ty::Int),
                        1 => ("A!", Ty::Sng),
                        2 => {
                            if self.cfg.strings {
                                ("S$", Ty::Str)
                            } else {
                                ("M%", Ty::Int)
                            }
                        }
                        _ => ("Q%", Ty::Int),
                    };
                    if params.iter().any(|p: &Var| p.text() == pn) {
                        continue;
                    }
                    params.push(Var::new(pn));
                    ptys.push(pt);
                }
                self.params = params
                    .iter()
                    .zip(ptys.iter())
                    .map(|(p, t)| (p.text(), *t))
                    .collect();
                // bodies may call earlier functions only
                let body = self.expr_of(ret, 1);
                self.params.clear();
                head.push(Draft {
                    label: None,
                    stmts: vec![Stmt::DefFn {
                        name: Var::new(fname),
                        params,
                        body,
                    }],
                });
                self.fn_params.push(match head.last().and_then(|d| d.stmts.last()) {
                    Some(Stmt::DefFn { params, .. }) => params.clone(),
                    _ => vec![],
                });
                self.fns.push((Var::new(fname), ptys, ret));
            }
        }
        let mut main: Vec<Draft> = vec![];
        let size = self.cfg.size;
        self.block(0, size, &mut main);
        if self.tron_on {
            main.push(Draft {
                label: None,
                stmts: vec![Stmt::Troff],
            });
            self.tron_on = false;
        }
        let needs_end = !self.subs.is_empty() || self.rng.pct(40);
        if needs_end {
            main.push(Draft {
                label: None,
                stmts: vec![Stmt::End],
            });
        } else if self.cfg.on && self.rng.pct(15) && self.labels > 0 {
            // the program's last statement is an ON..GOTO / ON..GOSUB whose selector is out of range:
            // execution falls off the end of the program
            let t = Target::L(self.rng.usize(self.labels));
            let sel = *self.rng.pick(&[0i32, 2, 5]);
            let st = if self.rng.pct(70) || !self.cfg.gosub {
                Stmt::OnGoto(Expr::int(sel), vec![t])
            } else {
                Stmt::OnGosub(Expr::int(sel), vec![t])
            };
            let mut stmts = vec![];
            if self.rng.pct(40) {
                stmts.push(self.simple());
            }
            stmts.push(st);
            main.push(Draft { label: None, stmts });
        } else if self.rng.pct(25) {
            // the program's last statement is an END inside an IF branch (taken or not)
            let cond = self.cond(1);
            let mut then = vec![];
            if self.rng.pct(40) {
                then.push(self.simple());
            }
            then.push(Stmt::End);
            let els = if self.rng.pct(30) { Some(Branch::Stmts(vec![Stmt::End])) } else { None };
            main.push(Draft {
                label: None,
                stmts: vec![Stmt::If {
                    cond,
                    goto_form: false,
                    then: Branch::Stmts(then),
                    els,
                }],
            });
        }
        let mut all: Vec<Draft> = vec![];
        all.append(&mut head);
        all.append(&mut main);
        let bodies = std::mem::take(&mut self.sub_bodies);
        for mut b in bodies {
            all.append(&mut b);
        }
        let tracing = self.cfg.tron;
        // a code-less landing pad at the very end of the program that is a branch target: jumping
        // there ends the program (it falls off the end)
        if !tracing && self.rng.pct(12) && !all.is_empty() {
            let pad = self.label();
            let n_main_end = all.len();
            let mut used = false;
            for d in all.iter_mut().take(n_main_end) {
                let last = d.stmts.len().saturating_sub(1);
                for (j, st) in d.stmts.iter_mut().enumerate() {
                    // an END that is the last statement of its line, outside IF branches
                    if j == last && matches!(st, Stmt::End) && self.rng.pct(50) {
                        *st = Stmt::Goto(Target::L(pad));
                        used = true;
                    }
                }
            }
            if !used || self.rng.pct(40) {
                let at = self.rng.usize(all.len() + 1);
                let cond = Expr::bin(BinOp::Eq, Expr::var("N%"), Expr::Int(*self.rng.pick(&[0i16, 1, 2])));
                all.insert(
                    at,
                    Draft {
                        label: None,
                        stmts: vec![Stmt::If {
                            cond,
                            goto_form: self.rng.pct(30),
                            then: Branch::Line(Target::L(pad)),
                            els: None,
                        }],
                    },
                );
            }
            // the pad follows the last line; sometimes an END sits right in front of it
            if self.rng.pct(60) && !matches!(all.last().and_then(|d| d.stmts.last()), Some(Stmt::End) | Some(Stmt::Return)) {
                all.push(Draft {
                    label: None,
                    stmts: vec![Stmt::End],
                });
            }
            let pad_stmt = if self.rng.pct(70) {
                Stmt::Rem("PAD".into(), false)
            } else {
                Stmt::Data(vec![Expr::Int(9)])
            };
            if matches!(pad_stmt, Stmt::Data(_)) && !self.data_types.contains(&Ty::Int) {
                self.data_types.push(Ty::Int);
            }
            all.push(Draft {
                label: Some(pad),
                stmts: vec![pad_stmt],
            });
            if self.rng.pct(30) {
                all.push(Draft {
                    label: None,
                    stmts: vec![Stmt::Rem(String::new(), false)],
                });
            }
        }
        // DATA and REM lines go anywhere between lines, unless tracing would make
        // code-less lines observable-by-omission
        for d in datas {
            let at = if tracing {
                all.len()
            } else {
                self.rng.usize(all.len() + 1)
            };
            all.insert(at, d);
        }
        if self.cfg.rems && !tracing {
            let n = self.rng.usize(3);
            for _ in 0..n {
                let at = self.rng.usize(all.len() + 1);
                let text = *self.rng.pick(&["", "NOTE", "GOTO 10", "é ü", "PRINT \"X\""]);
                all.insert(
                    at,
                    Draft {
                        label: None,
                        stmts: vec![Stmt::Rem(text.to_string(), self.rng.pct(30) && !text.is_empty())],
                    },
                );
            }
        }
        // a label on a DATA/REM draft inserted before its target would be wrong: labels live on
        // the drafts themselves, so insertion is safe.
        let mut label_to_index: Vec<usize> = vec![usize::MAX; self.labels];
        for (i, d) in all.iter().enumerate() {
            if let Some(l) = d.label {
                label_to_index[l] = i;
            }
        }
        let mut num = self.cfg.line_start as u32;
        let mut lines: Vec<Line> = vec![];
        for d in all {
            lines.push(Line {
                num: num.min(65529) as u16,
                stmts: d.stmts,
            });
            let step = if self.cfg.irregular {
                self.cfg.line_step as u32 + self.rng.below(7) as u32
            } else {
                self.cfg.line_step as u32
            };
            num += step.max(1);
        }
        if self.cfg.top_line && lines.last().map(|l| l.num < 65529).unwrap_or(false) {
            // about 3% of the programs (no extra draw, so every other program of a seed is unchanged) end on
            // 65529, the highest legal line number and the neighbour of the pseudo line number that stands for
            // the direct statement: errors, STOP, TRON and branches there must still name line 65529
            let shift = 65529 - lines[lines.len() - 1].num;
            for l in lines.iter_mut() {
                l.num += shift;
            }
        }
        if self.cfg.data && (self.cfg.emph == Emph::Data || self.rng.pct(25)) && !self.cfg.tron && !lines.is_empty() {
            // DATA inside a branch that never executes still belongs to the list
            let at = self.rng.usize(lines.len() + 1);
            let num = if at < lines.len() { lines[at].num.saturating_sub(1) } else { lines[lines.len() - 1].num.saturating_add(3).min(65529) };
            let free = !lines.iter().any(|l| l.num == num) && (at == 0 || lines[at - 1].num < num);
            if free {
                let item = if self.rng.pct(50) { Expr::Int(77) } else { Expr::Str("IFDATA".into()) };
                let ty = if let Expr::Int(_) = item { Ty::Int } else { Ty::Str };
                if !self.data_types.contains(&ty) {
                    self.data_types.push(ty);
                }
                lines.insert(
                    at,
                    Line {
                        num,
                        stmts: vec![Stmt::If {
                            cond: Expr::Int(0),
                            goto_form: false,
                            then: Branch::Stmts(vec![Stmt::Data(vec![item])]),
                            els: None,
                        }],
                    },
                );
                for x in label_to_index.iter_mut() {
                    if *x != usize::MAX && *x >= at {
                        *x += 1;
                    }
                }
            }
        }
        let mut p = Program { lines };
        let n = p.lines.len();
        if self.cfg.data && n > 0 {
            // RESTORE n: any existing line is a legal operand
            let pr = if self.cfg.emph == Emph::Data { 60 } else { 30 };
            let mut picks: Vec<usize> = vec![];
            for _ in 0..8 {
                picks.push(self.rng.usize(n));
            }
            let mut k = 0;
            let mut flip: Vec<bool> = vec![];
            for _ in 0..8 {
                flip.push(self.rng.pct(pr));
            }
            for l in p.lines.iter_mut() {
                for st in l.stmts.iter_mut() {
                    if let Stmt::Restore(None) = st {
                        if flip[k % 8] {
                            *st = Stmt::Restore(Some(Target::L(usize::MAX - picks[k % 8])));
                        }
                        k += 1;
                    }
                }
            }
        }
        map_targets(&mut p, &mut |t| {
            if let Target::L(l) = t {
                if *l > usize::MAX / 2 {
                    // already a line index (RESTORE n picked after layout)
                    *t = Target::L(usize::MAX - *l);
                    return;
                }
                let i = label_to_index.get(*l).copied().unwrap_or(usize::MAX);
                *t = Target::L(if i == usize::MAX { n.saturating_sub(1) } else { i });
            }
        });
        p
    }
}

pub fn gen_program(rng: &mut Rng, cfg: GenCfg) -> Program {
    let mut g = Gen::new(rng, cfg);
    g.program()
}

/// Synthesise an INPUT reply for targets of the given types.
pub fn gen_reply(rng: &mut Rng, tys: &[Ty], bad: bool) -> String {
    let mut fields: Vec<String> = vec![];
    let single = tys.len() == 1;
    for t in tys {
        let f = match t {
            Ty::Str => {
                if single {
                    rng.pick(&["HELLO", "A,B", "  PAD  ", "\"Q\"", "", "x y", "\"A,B\"", "é"]).to_string()
                } else {
                    rng.pick(&["HELLO", "\"A,B\"", " PAD ", "\"\"", "", "x y", "\"Q\"", "ZOË", "é日", "\"ü,ö\""]).to_string()
                }
            }
            Ty::Int => rng.pick(&["3", "-2", "0", " 7 ", "1E1", "&H1F", "&17", "", "+4", "2.9", "12", "&HD", "&H1D", "1D2", "&HAE"]).to_string(),
            _ => rng.pick(&["3", "-2.5", "0", " 7 ", "1E1", "&H1F", "", "2.5D0", ".5", "100", "&HAD", "&HD", "2.5E-1", "1D1"]).to_string(),
        };
        fields.push(f);
    }
    if !single && rng.pct(3) {
        // an odd number of double quotes: what follows the last one is inside the quotes
        return rng.pick(&["\"abc,5", "x\",y", "a,\"b", "p\"q,r", "\"x,2,3", "1,\"", "\"a\",\"b,c"]).to_string();
    }
    if bad && rng.pct(6) {
        // longer than the 1024-byte line buffer
        return match rng.below(3) {
            0 => "7".repeat(1030),
            1 => format!("{}{}", fields.join(","), " ".repeat(1100)),
            _ => "AB,".repeat(400),
        };
    }
    if bad {
        match rng.below(4) {
            0 if !single => {
                fields.pop();
            }
            1 if !single => fields.push("1".into()),
            _ => {
                // unconvertible numeric field, if there is a numeric target
                if let Some(i) = tys.iter().position(|t| *t != Ty::Str) {
                    fields[i] = match tys[i] {
                        Ty::Int => rng.pick(&["X", "99999", "1 2", "12AB"]).to_string(),
                        _ => rng.pick(&["X", "1 2", "12AB", "1,5X"]).to_string(),
                    };
                } else if !single {
                    fields.push("EXTRA".into());
                } else {
                    // a single string target accepts anything up to 255 characters
                    fields[0] = "y".repeat(256);
                }
            }
        }
    }
    fields.join(",")
}
