//! The generator's own AST. Programs are generated as values of these types,
//! rendered to text for the real interpreter and interpreted directly by the
//! reference model (which therefore never parses text).

#[derive(Clone, Copy, Debug, PartialEq, Eq, PartialOrd, Ord)]
pub enum Ty {
    Int,
    Sng,
    Dbl,
    Str,
}

/// A variable name as spelled: upper-case base plus optional type suffix.
#[derive(Clone, Debug, PartialEq, Eq, PartialOrd, Ord, Hash)]
pub struct Var {
    pub base: String,
    pub sfx: Option<char>,
}

impl Var {
    pub fn new(s: &str) -> Var {
        let last = s.chars().last().unwrap_or('A');
        if "%!#$".contains(last) {
            Var {
                base: s[..s.len() - 1].to_string(),
                sfx: Some(last),
            }
        } else {
            Var {
                base: s.to_string(),
                sfx: None,
            }
        }
    }
    pub fn text(&self) -> String {
        match self.sfx {
            Some(c) => format!("{}{}", self.base, c),
            None => self.base.clone(),
        }
    }
    pub fn first_letter(&self) -> char {
        self.base.chars().next().unwrap_or('A')
    }
}

#[derive(Clone, Debug, PartialEq)]
pub struct LVal {
    pub var: Var,
    pub idx: Vec<Expr>,
}

impl LVal {
    pub fn scalar(s: &str) -> LVal {
        LVal {
            var: Var::new(s),
            idx: vec![],
        }
    }
    pub fn arr(s: &str, idx: Vec<Expr>) -> LVal {
        LVal {
            var: Var::new(s),
            idx,
        }
    }
}

#[derive(Clone, Copy, Debug, PartialEq, Eq)]
pub enum BinOp {
    Add,
    Sub,
    Mul,
    Div,
    IDiv,
    Mod,
    Pow,
    Eq,
    Ne,
    Lt,
    Le,
    Gt,
    Ge,
    And,
    Or,
    Xor,
    Imp,
    Eqv,
}

impl BinOp {
    pub fn text(&self) -> &'static str {
        use BinOp::*;
        match self {
            Add => "+",
            Sub => "-",
            Mul => "*",
            Div => "/",
            IDiv => "\\",
            Mod => " MOD ",
            Pow => "^",
            Eq => "=",
            Ne => "<>",
            Lt => "<",
            Le => "<=",
            Gt => ">",
            Ge => ">=",
            And => " AND ",
            Or => " OR ",
            Xor => " XOR ",
            Imp => " IMP ",
            Eqv => " EQV ",
        }
    }
}

#[derive(Clone, Copy, Debug, PartialEq, Eq)]
pub enum Builtin {
    Abs,
    Sgn,
    Int,
    Fix,
    Len,
    Left,
    Right,
    Mid,
    Chr,
    Asc,
    StringS,
    Spc,
    Tab,
    Pos,
    Str,
    Val,
    Cint,
    Csng,
    Cdbl,
    Inkey,
    Rnd,
    Date,
    Time,
}

impl Builtin {
    pub fn text(&self) -> &'static str {
        use Builtin::*;
        match self {
            Abs => "ABS",
            Sgn => "SGN",
            Int => "INT",
            Fix => "FIX",
            Len => "LEN",
            Left => "LEFT$",
            Right => "RIGHT$",
            Mid => "MID$",
            Chr => "CHR$",
            Asc => "ASC",
            StringS => "STRING$",
            Spc => "SPC",
            Tab => "TAB",
            Pos => "POS",
            Str => "STR$",
            Val => "VAL",
            Cint => "CINT",
            Csng => "CSNG",
            Cdbl => "CDBL",
            Inkey => "INKEY$",
            Rnd => "RND",
            Date => "DATE$",
            Time => "TIME$",
        }
    }
}

#[derive(Clone, Debug, PartialEq)]
pub enum Expr {
    /// non-negative Integer literal 0..=32767
    Int(i16),
    /// non-negative Single literal, rendered with Rust's shortest form (must contain '.' or be > 32767)
    Sng(f32),
    /// non-negative Double literal, rendered with a '#' suffix
    Dbl(f64),
    Str(String),
    L(Box<LVal>),
    Neg(Box<Expr>),
    Not(Box<Expr>),
    Bin(BinOp, Box<Expr>, Box<Expr>),
    Call(Builtin, Vec<Expr>),
    /// user function call: name as spelled after FN (e.g. "A", "B$"), arguments
    Fn(Var, Vec<Expr>),
}

impl Expr {
    pub fn var(s: &str) -> Expr {
        Expr::L(Box::new(LVal::scalar(s)))
    }
    pub fn bin(op: BinOp, a: Expr, b: Expr) -> Expr {
        Expr::Bin(op, Box::new(a), Box::new(b))
    }
    /// signed integer literal helper
    pub fn int(n: i32) -> Expr {
        if n < 0 {
            Expr::Neg(Box::new(Expr::Int((-n) as i16)))
        } else {
            Expr::Int(n as i16)
        }
    }
}

/// A branch target.
#[derive(Clone, Debug, PartialEq)]
pub enum Target {
    /// index into `Program::lines`
    L(usize),
    /// literal line number that is not resolved through the program (dangling references)
    Abs(u16),
}

#[derive(Clone, Debug, PartialEq)]
pub enum PItem {
    E(Expr),
    Semi,
    Comma,
}

#[derive(Clone, Debug, PartialEq)]
pub enum Branch {
    Line(Target),
    Stmts(Vec<Stmt>),
}

#[derive(Clone, Debug, PartialEq)]
pub enum Stmt {
    Let {
        kw: bool,
        target: LVal,
        expr: Expr,
    },
    Print {
        q: bool,
        items: Vec<PItem>,
    },
    If {
        cond: Expr,
        /// `IF c GOTO n` spelling (then must be Branch::Line)
        goto_form: bool,
        then: Branch,
        els: Option<Branch>,
    },
    Goto(Target),
    Gosub(Target),
    Return,
    OnGoto(Expr, Vec<Target>),
    OnGosub(Expr, Vec<Target>),
    For {
        var: Var,
        from: Expr,
        to: Expr,
        step: Option<Expr>,
    },
    Next(Vec<Var>),
    While(Expr),
    Wend,
    End,
    Stop,
    Input {
        nocaps: bool,
        prompt: Option<String>,
        targets: Vec<LVal>,
    },
    Read(Vec<LVal>),
    Data(Vec<Expr>),
    Restore(Option<Target>),
    Dim(Vec<LVal>),
    Erase(Vec<Var>),
    DefFn {
        name: Var,
        params: Vec<Var>,
        body: Expr,
    },
    DefType(Ty, char, char),
    Swap(LVal, LVal),
    MidSet {
        target: LVal,
        pos: Expr,
        len: Option<Expr>,
        expr: Expr,
    },
    Tron,
    Troff,
    Rem(String, bool),
    Clear,
    Cls,
    Run(Option<Target>),
    Cont,
    /// commands the reference model does not interpret, with line operands
    /// (LIST n / LIST a-b / DELETE n / DELETE a-b as inert program text)
    ListCmd(Option<Target>, Option<Target>),
    DeleteCmd(Option<Target>, Option<Target>),
    /// open-ended range as inert program text: `LIST a-` (false) / `DELETE a-` (true)
    FromCmd(bool, Target),
    /// verbatim text; the reference model refuses to execute it
    Raw(String),
}

#[derive(Clone, Debug, PartialEq)]
pub struct Line {
    pub num: u16,
    pub stmts: Vec<Stmt>,
}

#[derive(Clone, Debug, PartialEq, Default)]
pub struct Program {
    pub lines: Vec<Line>,
}

impl Program {
    pub fn index_of(&self, num: u16) -> Option<usize> {
        self.lines.iter().position(|l| l.num == num)
    }
}

// ---------------------------------------------------------------------------
// Rendering. Canonical spelling: upper case, one blank between words, so that
// the interpreter's listing of a rendered line is the rendered line itself.

pub fn fmt_f32(v: f32) -> String {
    let s = format!("{}", v);
    if s.contains('.') || s.contains("inf") || s.contains("NaN") {
        s
    } else if v.abs() <= 32767.0 {
        // would lex as an Integer literal: force Single
        format!("{}!", s)
    } else {
        s
    }
}

pub fn fmt_f64(v: f64) -> String {
    format!("{}#", v)
}

pub fn render_target(p: &Program, t: &Target) -> String {
    match t {
        Target::L(i) => p.lines.get(*i).map(|l| l.num).unwrap_or(65529).to_string(),
        Target::Abs(n) => n.to_string(),
    }
}

pub fn render_lval(p: &Program, l: &LVal) -> String {
    if l.idx.is_empty() {
        l.var.text()
    } else {
        let v: Vec<String> = l.idx.iter().map(|e| render_expr(p, e)).collect();
        format!("{}({})", l.var.text(), v.join(","))
    }
}

fn needs_paren(e: &Expr) -> bool {
    matches!(e, Expr::Bin(..) | Expr::Neg(..) | Expr::Not(..))
}

fn render_operand(p: &Program, e: &Expr) -> String {
    if needs_paren(e) {
        format!("({})", render_expr(p, e))
    } else {
        render_expr(p, e)
    }
}

pub fn render_expr(p: &Program, e: &Expr) -> String {
    match e {
        Expr::Int(n) => n.to_string(),
        Expr::Sng(v) => fmt_f32(*v),
        Expr::Dbl(v) => fmt_f64(*v),
        Expr::Str(s) => format!("\"{}\"", s),
        Expr::L(l) => render_lval(p, l),
        Expr::Neg(x) => format!("-{}", render_operand(p, x)),
        Expr::Not(x) => format!("NOT {}", render_operand(p, x)),
        Expr::Bin(op, a, b) => format!("{}{}{}", render_operand(p, a), op.text(), render_operand(p, b)),
        Expr::Call(f, args) => {
            if args.is_empty() && matches!(f, Builtin::Inkey | Builtin::Date | Builtin::Time) {
                f.text().to_string()
            } else {
                let v: Vec<String> = args.iter().map(|a| render_expr(p, a)).collect();
                format!("{}({})", f.text(), v.join(","))
            }
        }
        Expr::Fn(name, args) => {
            let v: Vec<String> = args.iter().map(|a| render_expr(p, a)).collect();
            format!("FN{}({})", name.text(), v.join(","))
        }
    }
}

fn render_branch(p: &Program, b: &Branch) -> String {
    match b {
        Branch::Line(t) => render_target(p, t),
        Branch::Stmts(v) => render_stmts(p, v),
    }
}

pub fn render_stmts(p: &Program, v: &[Stmt]) -> String {
    let parts: Vec<String> = v.iter().map(|s| render_stmt(p, s)).collect();
    parts.join(":")
}

fn render_range(p: &Program, a: &Option<Target>, b: &Option<Target>) -> String {
    match (a, b) {
        (None, None) => String::new(),
        (Some(a), None) => format!(" {}", render_target(p, a)),
        (Some(a), Some(b)) => format!(" {}-{}", render_target(p, a), render_target(p, b)),
        (None, Some(b)) => format!(" -{}", render_target(p, b)),
    }
}

pub fn render_stmt(p: &Program, s: &Stmt) -> String {
    match s {
        Stmt::Let { kw, target, expr } => format!(
            "{}{}={}",
            if *kw { "LET " } else { "" },
            render_lval(p, target),
            render_expr(p, expr)
        ),
        Stmt::Print { q, items } => {
            let mut out = String::from(if *q { "?" } else { "PRINT" });
            let mut first = true;
            let mut prev_expr = false;
            for it in items {
                match it {
                    PItem::E(e) => {
                        if first && !*q {
                            out.push(' ');
                        } else if prev_expr {
                            // juxtaposition of two expressions needs a separator token
                            out.push(' ');
                        }
                        out.push_str(&render_expr(p, e));
                        prev_expr = true;
                    }
                    PItem::Semi => {
                        if first && !*q {
                            out.push(' ');
                        }
                        out.push(';');
                        prev_expr = false;
                    }
                    PItem::Comma => {
                        if first && !*q {
                            out.push(' ');
                        }
                        out.push(',');
                        prev_expr = false;
                    }
                }
                first = false;
            }
            out
        }
        Stmt::If {
            cond,
            goto_form,
            then,
            els,
        } => {
            let mut out = format!("IF {} ", render_expr(p, cond));
            if *goto_form {
                out.push_str("GOTO ");
            } else {
                out.push_str("THEN ");
            }
            out.push_str(&render_branch(p, then));
            if let Some(e) = els {
                out.push_str(" ELSE ");
                out.push_str(&render_branch(p, e));
            }
            out
        }
        Stmt::Goto(t) => format!("GOTO {}", render_target(p, t)),
        Stmt::Gosub(t) => format!("GOSUB {}", render_target(p, t)),
        Stmt::Return => "RETURN".into(),
        Stmt::OnGoto(e, ts) => format!(
            "ON {} GOTO {}",
            render_expr(p, e),
            ts.iter().map(|t| render_target(p, t)).collect::<Vec<_>>().join(",")
        ),
        Stmt::OnGosub(e, ts) => format!(
            "ON {} GOSUB {}",
            render_expr(p, e),
            ts.iter().map(|t| render_target(p, t)).collect::<Vec<_>>().join(",")
        ),
        Stmt::For { var, from, to, step } => {
            let mut out = format!(
                "FOR {}={} TO {}",
                var.text(),
                render_expr(p, from),
                render_expr(p, to)
            );
            if let Some(s) = step {
                out.push_str(&format!(" STEP {}", render_expr(p, s)));
            }
            out
        }
        Stmt::Next(vs) => {
            if vs.is_empty() {
                "NEXT".into()
            } else {
                format!("NEXT {}", vs.iter().map(|v| v.text()).collect::<Vec<_>>().join(","))
            }
        }
        Stmt::While(e) => format!("WHILE {}", render_expr(p, e)),
        Stmt::Wend => "WEND".into(),
        Stmt::End => "END".into(),
        Stmt::Stop => "STOP".into(),
        Stmt::Input {
            nocaps,
            prompt,
            targets,
        } => {
            let mut out = String::from("INPUT ");
            if *nocaps {
                out.push(',');
            }
            if let Some(pr) = prompt {
                out.push_str(&format!("\"{}\";", pr));
            }
            out.push_str(&targets.iter().map(|t| render_lval(p, t)).collect::<Vec<_>>().join(","));
            out
        }
        Stmt::Read(ts) => format!(
            "READ {}",
            ts.iter().map(|t| render_lval(p, t)).collect::<Vec<_>>().join(",")
        ),
        Stmt::Data(es) => format!(
            "DATA {}",
            es.iter().map(|e| render_expr(p, e)).collect::<Vec<_>>().join(",")
        ),
        Stmt::Restore(None) => "RESTORE".into(),
        Stmt::Restore(Some(t)) => format!("RESTORE {}", render_target(p, t)),
        Stmt::Dim(ls) => format!(
            "DIM {}",
            ls.iter().map(|l| render_lval(p, l)).collect::<Vec<_>>().join(",")
        ),
        Stmt::Erase(vs) => format!(
            "ERASE {}",
            vs.iter().map(|v| v.text()).collect::<Vec<_>>().join(",")
        ),
        Stmt::DefFn { name, params, body } => format!(
            "DEF FN{}({})={}",
            name.text(),
            params.iter().map(|v| v.text()).collect::<Vec<_>>().join(","),
            render_expr(p, body)
        ),
        Stmt::DefType(ty, a, b) => {
            let w = match ty {
                Ty::Int => "DEFINT",
                Ty::Sng => "DEFSNG",
                Ty::Dbl => "DEFDBL",
                Ty::Str => "DEFSTR",
            };
            if a == b {
                format!("{} {}", w, a)
            } else {
                format!("{} {}-{}", w, a, b)
            }
        }
        Stmt::Swap(a, b) => format!("SWAP {},{}", render_lval(p, a), render_lval(p, b)),
        Stmt::MidSet {
            target,
            pos,
            len,
            expr,
        } => {
            let mut out = format!("MID$({},{}", render_lval(p, target), render_expr(p, pos));
            if let Some(l) = len {
                out.push_str(&format!(",{}", render_expr(p, l)));
            }
            out.push_str(&format!(")={}", render_expr(p, expr)));
            out
        }
        Stmt::Tron => "TRON".into(),
        Stmt::Troff => "TROFF".into(),
        Stmt::Rem(t, tick) => {
            if *tick {
                format!("'{}", t)
            } else if t.is_empty() {
                "REM".into()
            } else {
                format!("REM {}", t)
            }
        }
        Stmt::Clear => "CLEAR".into(),
        Stmt::Cls => "CLS".into(),
        Stmt::Run(None) => "RUN".into(),
        Stmt::Run(Some(t)) => format!("RUN {}", render_target(p, t)),
        Stmt::Cont => "CONT".into(),
        Stmt::ListCmd(a, b) => format!("LIST{}", render_range(p, a, b)),
        Stmt::DeleteCmd(a, b) => format!("DELETE{}", render_range(p, a, b)),
        Stmt::FromCmd(del, a) => format!("{} {}-", if *del { "DELETE" } else { "LIST" }, render_target(p, a)),
        Stmt::Raw(s) => s.clone(),
    }
}

pub fn render_line(p: &Program, i: usize) -> String {
    let l = &p.lines[i];
    format!("{} {}", l.num, render_stmts(p, &l.stmts))
}

pub fn render_program(p: &Program) -> Vec<String> {
    (0..p.lines.len()).map(|i| render_line(p, i)).collect()
}

/// A direct-mode statement list rendered against a resident program.
pub fn render_direct(p: &Program, stmts: &[Stmt]) -> String {
    render_stmts(p, stmts)
}
