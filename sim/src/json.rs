//! Minimal JSON value, writer and parser (no external crates).

use std::collections::BTreeMap;
use std::fmt::Write;

#[derive(Clone, Debug, PartialEq)]
pub enum Json {
    Null,
    Bool(bool),
    Int(i64),
    Num(f64),
    Str(String),
    Arr(Vec<Json>),
    Obj(BTreeMap<String, Json>),
}

impl From<&str> for Json {
    fn from(s: &str) -> Json {
        Json::Str(s.to_string())
    }
}
impl From<String> for Json {
    fn from(s: String) -> Json {
        Json::Str(s)
    }
}
impl From<i64> for Json {
    fn from(n: i64) -> Json {
        Json::Int(n)
    }
}
impl From<u64> for Json {
    fn from(n: u64) -> Json {
        Json::Int(n as i64)
    }
}
impl From<usize> for Json {
    fn from(n: usize) -> Json {
        Json::Int(n as i64)
    }
}
impl From<bool> for Json {
    fn from(b: bool) -> Json {
        Json::Bool(b)
    }
}
impl From<f64> for Json {
    fn from(n: f64) -> Json {
        Json::Num(n)
    }
}
impl<T: Into<Json>> From<Vec<T>> for Json {
    fn from(v: Vec<T>) -> Json {
        Json::Arr(v.into_iter().map(|x| x.into()).collect())
    }
}

#[derive(Default)]
pub struct ObjBuilder(BTreeMap<String, Json>);

pub fn obj() -> ObjBuilder {
    ObjBuilder::default()
}

impl ObjBuilder {
    pub fn set<T: Into<Json>>(mut self, k: &str, v: T) -> Self {
        self.0.insert(k.to_string(), v.into());
        self
    }
    pub fn build(self) -> Json {
        Json::Obj(self.0)
    }
}

fn esc(s: &str, out: &mut String) {
    out.push('"');
    for c in s.chars() {
        match c {
            '"' => out.push_str("\\\""),
            '\\' => out.push_str("\\\\"),
            '\n' => out.push_str("\\n"),
            '\r' => out.push_str("\\r"),
            '\t' => out.push_str("\\t"),
            c if (c as u32) < 0x20 => {
                let _ = write!(out, "\\u{:04x}", c as u32);
            }
            c => out.push(c),
        }
    }
    out.push('"');
}

impl Json {
    pub fn get(&self, k: &str) -> Option<&Json> {
        match self {
            Json::Obj(m) => m.get(k),
            _ => None,
        }
    }
    pub fn as_str(&self) -> Option<&str> {
        match self {
            Json::Str(s) => Some(s),
            _ => None,
        }
    }
    pub fn as_i64(&self) -> Option<i64> {
        match self {
            Json::Int(n) => Some(*n),
            Json::Num(n) => Some(*n as i64),
            _ => None,
        }
    }
    pub fn as_arr(&self) -> Option<&Vec<Json>> {
        match self {
            Json::Arr(a) => Some(a),
            _ => None,
        }
    }

    pub fn write(&self, out: &mut String, indent: Option<usize>) {
        self.write_at(out, indent, 0)
    }

    fn write_at(&self, out: &mut String, indent: Option<usize>, depth: usize) {
        let nl = |out: &mut String, d: usize| {
            if let Some(n) = indent {
                out.push('\n');
                for _ in 0..(n * d) {
                    out.push(' ');
                }
            }
        };
        match self {
            Json::Null => out.push_str("null"),
            Json::Bool(b) => out.push_str(if *b { "true" } else { "false" }),
            Json::Int(n) => {
                let _ = write!(out, "{}", n);
            }
            Json::Num(n) => {
                if n.is_finite() {
                    let _ = write!(out, "{}", n);
                } else {
                    out.push_str("null");
                }
            }
            Json::Str(s) => esc(s, out),
            Json::Arr(a) => {
                out.push('[');
                for (i, v) in a.iter().enumerate() {
                    if i > 0 {
                        out.push(',');
                    }
                    nl(out, depth + 1);
                    v.write_at(out, indent, depth + 1);
                }
                if !a.is_empty() {
                    nl(out, depth);
                }
                out.push(']');
            }
            Json::Obj(m) => {
                out.push('{');
                for (i, (k, v)) in m.iter().enumerate() {
                    if i > 0 {
                        out.push(',');
                    }
                    nl(out, depth + 1);
                    esc(k, out);
                    out.push(':');
                    if indent.is_some() {
                        out.push(' ');
                    }
                    v.write_at(out, indent, depth + 1);
                }
                if !m.is_empty() {
                    nl(out, depth);
                }
                out.push('}');
            }
        }
    }

    pub fn to_string_pretty(&self) -> String {
        let mut s = String::new();
        self.write(&mut s, Some(1));
        s
    }

    pub fn to_string_compact(&self) -> String {
        let mut s = String::new();
        self.write(&mut s, None);
        s
    }

    pub fn parse(text: &str) -> Result<Json, String> {
        let chars: Vec<char> = text.chars().collect();
        let mut p = Parser { c: &chars, i: 0 };
        p.ws();
        let v = p.value()?;
        p.ws();
        if p.i != chars.len() {
            return Err(format!("trailing characters at {}", p.i));
        }
        Ok(v)
    }
}

struct Parser<'a> {
    c: &'a [char],
    i: usize,
}

impl<'a> Parser<'a> {
    fn ws(&mut self) {
        while self.i < self.c.len() && self.c[self.i].is_whitespace() {
            self.i += 1;
        }
    }
    fn peek(&self) -> Option<char> {
        self.c.get(self.i).copied()
    }
    fn lit(&mut self, s: &str, v: Json) -> Result<Json, String> {
        for ch in s.chars() {
            if self.peek() != Some(ch) {
                return Err(format!("bad literal at {}", self.i));
            }
            self.i += 1;
        }
        Ok(v)
    }
    fn value(&mut self) -> Result<Json, String> {
        match self.peek() {
            None => Err("unexpected end".into()),
            Some('n') => self.lit("null", Json::Null),
            Some('t') => self.lit("true", Json::Bool(true)),
            Some('f') => self.lit("false", Json::Bool(false)),
            Some('"') => Ok(Json::Str(self.string()?)),
            Some('[') => {
                self.i += 1;
                let mut a = vec![];
                self.ws();
                if self.peek() == Some(']') {
                    self.i += 1;
                    return Ok(Json::Arr(a));
                }
                loop {
                    self.ws();
                    a.push(self.value()?);
                    self.ws();
                    match self.peek() {
                        Some(',') => self.i += 1,
                        Some(']') => {
                            self.i += 1;
                            return Ok(Json::Arr(a));
                        }
                        _ => return Err(format!("expected , or ] at {}", self.i)),
                    }
                }
            }
            Some('{') => {
                self.i += 1;
                let mut m = BTreeMap::new();
                self.ws();
                if self.peek() == Some('}') {
                    self.i += 1;
                    return Ok(Json::Obj(m));
                }
                loop {
                    self.ws();
                    let k = self.string()?;
                    self.ws();
                    if self.peek() != Some(':') {
                        return Err(format!("expected : at {}", self.i));
                    }
                    self.i += 1;
                    self.ws();
                    let v = self.value()?;
                    m.insert(k, v);
                    self.ws();
                    match self.peek() {
                        Some(',') => self.i += 1,
                        Some('}') => {
                            self.i += 1;
                            return Ok(Json::Obj(m));
                        }
                        _ => return Err(format!("expected , or }} at {}", self.i)),
                    }
                }
            }
            Some(_) => {
                let start = self.i;
                while let Some(ch) = self.peek() {
                    if ch.is_ascii_digit() || "+-.eE".contains(ch) {
                        self.i += 1;
                    } else {
                        break;
                    }
                }
                let s: String = self.c[start..self.i].iter().collect();
                if let Ok(n) = s.parse::<i64>() {
                    Ok(Json::Int(n))
                } else if let Ok(n) = s.parse::<f64>() {
                    Ok(Json::Num(n))
                } else {
                    Err(format!("bad number at {}", start))
                }
            }
        }
    }
    fn string(&mut self) -> Result<String, String> {
        if self.peek() != Some('"') {
            return Err(format!("expected string at {}", self.i));
        }
        self.i += 1;
        let mut s = String::new();
        loop {
            let ch = self.peek().ok_or("unterminated string")?;
            self.i += 1;
            match ch {
                '"' => return Ok(s),
                '\\' => {
                    let e = self.peek().ok_or("bad escape")?;
                    self.i += 1;
                    match e {
                        'n' => s.push('\n'),
                        'r' => s.push('\r'),
                        't' => s.push('\t'),
                        'b' => s.push('\u{8}'),
                        'f' => s.push('\u{c}'),
                        'u' => {
                            let h: String = self.c[self.i..self.i + 4].iter().collect();
                            self.i += 4;
                            let n = u32::from_str_radix(&h, 16).map_err(|e| e.to_string())?;
                            s.push(char::from_u32(n).unwrap_or('\u{fffd}'));
                        }
                        c => s.push(c),
                    }
                }
                c => s.push(c),
            }
        }
    }
}
